#!/usr/bin/env python3
"""Automated mutation campaign (sensitivity measurement of the checks).

For a random sample of small syntactic mutations of the files the properties are
anchored in:  apply the mutation to /repo, build, run the repository's own test
suite; a mutant that the existing tests already kill is uninteresting.  For the
survivors run the quick checks of the properties anchored in that file and record
whether a VIOLATION is reported.  /repo is restored after every mutant.

  python3 mutate.py <n_mutants> [seed] [file-substring]

Results: mutation/results.jsonl (appended).  Never run while anything else uses /repo.
"""
import json, os, random, re, subprocess, sys, time

REPO = "/repo"
HERE = os.path.dirname(os.path.abspath(__file__))
OUT = os.path.join(HERE, "mutation")

FILES = {
    "src/builder/bdd/robdd.rs": ["C01", "C02", "C08"],
    "src/builder/bdd/builder.rs": ["C01", "C05"],
    "src/builder/mod.rs": ["C01", "C05"],
    "src/builder/cache/ite.rs": ["C01", "C16"],
    "src/builder/cache/all_app.rs": ["C01", "C16"],
    "src/builder/cache/lru_app.rs": ["C01", "C16"],
    "src/util/lru.rs": ["C16"],
    "src/backing_store/bump_table.rs": ["C02", "C04"],
    "src/repr/bdd.rs": ["C07", "C10", "C12", "C01"],
    "src/repr/var_order.rs": ["C01", "C14"],
    "src/builder/sdd/builder.rs": ["C03", "C04", "C05"],
    "src/builder/sdd/compression.rs": ["C04", "C03", "C16"],
    "src/builder/sdd/semantic.rs": ["C11"],
    "src/repr/sdd.rs": ["C07", "C10", "C03"],
    "src/repr/sdd/sdd_or.rs": ["C11", "C10", "C04"],
    "src/repr/sdd/binary_sdd.rs": ["C11", "C10", "C04"],
    "src/repr/vtree.rs": ["C14", "C03"],
    "src/util/btree.rs": ["C14", "C03"],
    "src/builder/decision_nnf/builder.rs": ["C06", "C10"],
    "src/builder/decision_nnf/standard.rs": ["C06"],
    "src/builder/decision_nnf/semantic.rs": ["C06", "C11"],
    "src/repr/unit_prop.rs": ["C09", "C06"],
    "src/repr/ddnnf.rs": ["C07", "C11"],
    "src/repr/wmc.rs": ["C07"],
    "src/util/semirings/finitefield.rs": ["C13", "C07"],
    "src/util/semirings/expectation.rs": ["C13", "C12"],
    "src/util/semirings/realsemiring.rs": ["C13"],
    "src/util/semirings/complex.rs": ["C13"],
    "src/util/semirings/polynomial_semiring_implementation.rs": ["C13", "C07"],
    "src/repr/cnf.rs": ["C15", "C14", "C17"],
    "src/repr/dtree.rs": ["C14", "C05"],
    "src/repr/model.rs": ["C15", "C09", "C05"],
    "src/repr/var_label.rs": ["C15", "C09", "C05"],
    "src/repr/logical_expr.rs": ["C17"],
    "src/serialize/ser_bdd.rs": ["C17", "C19"],
    "src/serialize/ser_sdd.rs": ["C17"],
    "src/serialize/ser_vtree.rs": ["C17"],
    "src/serialize/ser_logical_expr.rs": ["C17"],
    "src/plan/bottom_up_plan.rs": ["C05"],
    "src/ffi/bdd.rs": ["C18"],
    "src/ffi/wmc.rs": ["C18"],
    "src/ffi/cnf.rs": ["C18"],
    "bin/weighted_model_count.rs": ["C19"],
    "bin/bottomup_cnf_to_bdd.rs": ["C19"],
    "bin/bottomup_formula_to_bdd.rs": ["C19"],
}

# (name, regex, replacement) -- one occurrence per mutant
OPS = [
    ("drop_neg", r"\.neg\(\)", ""),
    ("lt_to_le", r" < ", " <= "),
    ("le_to_lt", r" <= ", " < "),
    ("gt_to_ge", r" > ", " >= "),
    ("ge_to_gt", r" >= ", " > "),
    ("eq_to_ne", r" == ", " != "),
    ("ne_to_eq", r" != ", " == "),
    ("and_to_or", r" && ", " || "),
    ("or_to_and", r" \|\| ", " && "),
    ("plus1_drop", r" \+ 1\b", ""),
    ("minus1_drop", r" - 1\b", ""),
    ("plus_to_minus", r" \+ 1\b", " - 1"),
    ("true_to_false", r"\btrue\b", "false"),
    ("false_to_true", r"\bfalse\b", "true"),
    ("low_to_high", r"\blow\b", "high"),
    ("high_to_low", r"\bhigh\b", "low"),
    ("low_raw_to_high_raw", r"\blow_raw\(\)", "high_raw()"),
    ("is_true_to_is_false", r"\bis_true\(", "is_false("),
    ("is_false_to_is_true", r"\bis_false\(", "is_true("),
    ("continue_to_break", r"\bcontinue;", "break;"),
    ("prime_to_sub", r"\.prime\(\)", ".sub()"),
    ("polarity_flip", r"\.polarity\(\)", ".polarity() == false"),
    ("ptrtrue_to_ptrfalse", r"\bPtrTrue\b", "PtrFalse"),
    # a whole call statement removed (a forgotten clear, insert, push, set ...)
    ("drop_call_stmt", r"(?m)^[ \t]+(?!let |return |if |for |while |match |loop |else |break|continue|//|#|pub |fn |use |impl |\}|\{)[A-Za-z_][^\n=]*\([^\n]*\);[ \t]*$", ""),
    # swap the two branches of an if/else expression on one line
    ("swap_then_else", r"\{ ([a-z_\.\(\)]+) \} else \{ ([a-z_\.\(\)]+) \}", r"{ \2 } else { \1 }"),
]


def sh(cmd, cwd=None, timeout=3600):
    env = dict(os.environ)
    env["CARGO_NET_OFFLINE"] = "true"
    try:
        r = subprocess.run(cmd, cwd=cwd, env=env, stdout=subprocess.PIPE, stderr=subprocess.STDOUT, text=True, timeout=timeout)
        return r.returncode, r.stdout
    except subprocess.TimeoutExpired:
        return None, "timeout"


def candidates(only=None):
    out = []
    for f in FILES:
        if only and only not in f:
            continue
        path = os.path.join(REPO, f)
        src = open(path).read()
        # do not mutate test modules, comments or the verification hooks
        cut = src.find("#[cfg(test)]")
        body = src if cut < 0 else src[:cut]
        first_test = body.find("\n#[test]")
        if first_test >= 0:
            body = body[:first_test]
        for name, rx, rep in OPS:
            for m in re.finditer(rx, body):
                line_start = body.rfind("\n", 0, m.start()) + 1
                line = body[line_start: body.find("\n", m.start())]
                s = line.strip()
                if s.startswith("//") or s.startswith("///") or "debug_assert" in s or "assert!" in s or "cfg(feature" in s or "verif" in s or "panic!" in s or "eprintln" in s or "println" in s or "fn " in s and "(" not in s:
                    continue
                out.append((f, name, m.start(), m.end(), rep, body.count("\n", 0, m.start()) + 1, s[:160]))
    return out


def main():
    n = int(sys.argv[1]) if len(sys.argv) > 1 else 20
    seed = int(sys.argv[2]) if len(sys.argv) > 2 else 1
    only = sys.argv[3] if len(sys.argv) > 3 else None
    os.makedirs(OUT, exist_ok=True)
    rc, _ = sh(["git", "-C", REPO, "diff", "--quiet"])
    assert rc == 0, "/repo has uncommitted changes"
    cands = candidates(only)
    rng = random.Random(seed)
    rng.shuffle(cands)
    done = set()
    resf = os.path.join(OUT, "results.jsonl")
    if os.path.exists(resf):
        for l in open(resf):
            try:
                d = json.loads(l)
                done.add((d["file"], d["op"], d["line"], d["text"]))
            except Exception:
                pass
    print("%d candidate mutations, running %d" % (len(cands), n), flush=True)
    ran = 0
    for f, name, a, b, rep, line, text in cands:
        if ran >= n:
            break
        if (f, name, line, text) in done:
            continue
        ran += 1
        path = os.path.join(REPO, f)
        src = open(path).read()
        mutated = src[:a] + rep + src[b:]
        rec = {"file": f, "op": name, "line": line, "text": text, "props": FILES[f], "t": time.strftime("%H:%M:%S")}
        try:
            open(path, "w").write(mutated)
            feats = ["--features", "cli,ffi"] if (f.startswith("bin/") or "/ffi/" in f) else []
            rc, out = sh(["cargo", "build", "--offline"] + feats + (["--bins", "--lib"] if feats else []), cwd=REPO)
            if rc != 0:
                rec["status"] = "does_not_compile"
            else:
                # the checks first (cheap); the repository's own suite only decides whether an
                # undetected mutant is a real survivor or one the existing tests kill anyway
                det = {}
                for p in FILES[f]:
                    rc2, out2 = sh([os.path.join(HERE, "check"), p, "--tier", "quick"], cwd=HERE, timeout=1800)
                    det[p] = {"exit": rc2, "violation": ("VIOLATION property=%s" % p) in out2,
                              "subs": [l.strip() for l in out2.splitlines() if l.startswith("  ")][:4]}
                    if det[p]["violation"]:
                        break
                rec["checks"] = det
                if any(v["violation"] for v in det.values()):
                    rec["status"] = "detected"
                else:
                    rc, out = sh(["cargo", "test", "--offline", "--workspace", "--no-fail-fast"], cwd=REPO, timeout=1800)
                    rec["status"] = "SURVIVED" if rc == 0 else "undetected_but_killed_by_existing_tests"
        finally:
            open(path, "w").write(src)
            sh(["git", "-C", REPO, "checkout", "--", f])
        with open(resf, "a") as fh:
            fh.write(json.dumps(rec) + "\n")
        print("%-24s %-50s:%-4d %-28s %s" % (rec["status"], f, line, name, text[:70]), flush=True)
    rc, _ = sh(["git", "-C", REPO, "diff", "--quiet"])
    assert rc == 0, "/repo not restored!"


if __name__ == "__main__":
    main()
