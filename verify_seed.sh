#!/bin/bash
# usage: verify_seed.sh <PROP> <A|B> <patch> <demo>   -- confirm a seeded change in a scratch worktree:
#   demo passes on HEAD, demo fails with the patch, the unedited suite passes with the patch.
# writes /tmp/verify/<PROP>-<AB>.result.json ; removes the worktree and its build output afterwards
prop="$1"; ab="$2"; patch="$3"; demo="$4"
wt=/tmp/verify/$prop-$ab
res=/tmp/verify/$prop-$ab.result.json
mkdir -p /tmp/verify
git -C /repo worktree remove --force $wt >/dev/null 2>&1
git -C /repo worktree add -q --detach $wt HEAD || exit 9
cd $wt
export CARGO_NET_OFFLINE=true
feat=""
if [ "$prop" = "C18" ]; then feat="--features ffi"; fi
run_demo() {
  case "$demo" in
    *.py) cargo build --offline --features cli --bins >/dev/null 2>&1; python3 "$demo" target/debug >/dev/null 2>&1; echo $? ;;
    *.rs) cp "$demo" tests/seeded_demo.rs; cargo test --offline $feat ${DEMO_PROFILE:+--release} --test seeded_demo >/tmp/verify/$prop-$ab.demo.log 2>&1; rc=$?; rm -f tests/seeded_demo.rs; echo $rc ;;
  esac
}
clean_rc=$(run_demo)
git apply "$patch" || { echo "{\"prop\":\"$prop\",\"id\":\"$ab\",\"applies\":false}" > $res; cd /; git -C /repo worktree remove --force $wt; exit 1; }
patched_rc=$(run_demo)
cargo test --offline --workspace --no-fail-fast > /tmp/verify/$prop-$ab.suite.log 2>&1; suite_rc=$?
passed=$(grep -E "^test result: ok" /tmp/verify/$prop-$ab.suite.log | sed -E 's/.* ([0-9]+) passed.*/\1/' | paste -sd+ | bc)
failed=$(grep -E "^test result" /tmp/verify/$prop-$ab.suite.log | sed -E 's/.* ([0-9]+) failed.*/\1/' | paste -sd+ | bc)
echo "{\"prop\":\"$prop\",\"id\":\"$ab\",\"applies\":true,\"demo_rc_on_head\":$clean_rc,\"demo_rc_with_patch\":$patched_rc,\"suite_rc_with_patch\":$suite_rc,\"suite_passed\":${passed:-0},\"suite_failed\":${failed:-0}}" > $res
cd /
git -C /repo worktree remove --force $wt
cat $res
