//! C10 -- queries are pure: answers never depend on earlier queries.
use crate::bddhist::*;
use crate::ctx::Ctx;
use crate::gen::*;
use crate::rng::Rng;
use crate::sddhist::{gen_sdd_history, random_sdd_cfg, SddCfg};
use crate::semi::*;
use crate::walk::{bdd_canon_string, bdd_nodes, sdd_canon_string, sdd_nodes, BddWalker};
use crate::with_robdd;
use rsdd::builder::decision_nnf::{DecisionNNFBuilder, StandardDecisionNNFBuilder};
use rsdd::builder::sdd::{CompressionSddBuilder, SddBuilder};
use rsdd::builder::{BottomUpBuilder, TopDownBuilder};
use rsdd::constants::primes;
use rsdd::repr::{
    create_semantic_hash_map, BddPtr, DDNNFPtr, Fold, Literal, PartialModel, SddPtr, VarLabel, VarOrder, WmcParams,
};
use rsdd::util::semirings::{ExpectedUtility, RealSemiring};
use serde_json::{json, Value};
use std::collections::HashMap;

pub fn run(ctx: &mut Ctx) {
    for case in ctx.cases("bdd", 500, true) {
        ctx.run_case("bdd", case, bdd_case);
    }
    for case in ctx.cases("sdd", 350, true) {
        ctx.run_case("sdd", case, sdd_case);
    }
    for case in ctx.cases("ddnnf", 350, true) {
        ctx.run_case("ddnnf", case, ddnnf_case);
    }
}

#[derive(Clone, Debug)]
enum Q {
    Wmc(u8, u64),
    Eval(usize),
    CountNodes,
    SemHash(u8),
    CachedHash,
    MargMap(Vec<usize>, u64),
    Meu(Vec<usize>, u64),
    BbReal(Vec<usize>, u64),
    BbEu(Vec<usize>, u64),
    FoldUsize,
    FoldI64,
    MutFold,
    Smooth(usize),
    Cond(usize, bool),
    CondModel(Vec<(usize, bool)>),
    Exists(usize),
}

fn gen_query(n: usize, rng: &mut Rng, kinds: usize) -> Q {
    let subset = |rng: &mut Rng| -> Vec<usize> {
        let mut v = rng.perm(n);
        v.truncate(rng.below(usize::min(n, 4) + 1));
        v
    };
    match rng.below(kinds) {
        0 | 1 | 2 | 3 => Q::Wmc(rng.below(8) as u8, rng.next()),
        4 => Q::Eval(rng.below(1 << n)),
        5 => Q::CountNodes,
        6 => Q::SemHash(rng.below(3) as u8),
        7 => Q::CachedHash,
        8 => Q::Cond(rng.below(n), rng.bool()),
        9 => Q::Exists(rng.below(n)),
        // below: BDD only
        10 => Q::MargMap(subset(rng), rng.next()),
        11 => Q::Meu(subset(rng), rng.next()),
        12 => Q::BbReal(subset(rng), rng.next()),
        13 => Q::BbEu(subset(rng), rng.next()),
        14 => Q::FoldUsize,
        15 => Q::FoldI64,
        16 => Q::MutFold,
        17 => Q::Smooth(rng.below(8)),
        _ => {
            let k = rng.below(n + 1);
            let mut vs = rng.perm(n);
            vs.truncate(k);
            Q::CondModel(vs.into_iter().map(|v| (v, rng.bool())).collect())
        }
    }
}

fn wmc_answer<'a, S: OSr, P: DDNNFPtr<'a>>(p: P, n: usize, seed: u64) -> String {
    let mut r = Rng::new(seed);
    let w: Vec<(S, S)> = (0..n).map(|_| S::random_pair(&mut r, false)).collect();
    S::show_r(&p.unsmoothed_wmc(&params::<S>(&w)))
}

/// the queries every DDNNFPtr supports
fn generic_answer<'a, P: DDNNFPtr<'a>>(p: P, n: usize, q: &Q) -> Option<String> {
    Some(match q {
        Q::Wmc(k, seed) => match k {
            0 => wmc_answer::<OReal, _>(p, n, *seed),
            1 => wmc_answer::<OFf<{ primes::U32_TINY }>, _>(p, n, *seed),
            2 => wmc_answer::<OFf<{ primes::U64_LARGEST }>, _>(p, n, *seed),
            3 => wmc_answer::<OBool, _>(p, n, *seed),
            4 => wmc_answer::<OEu, _>(p, n, *seed),
            5 => wmc_answer::<OCx, _>(p, n, *seed),
            6 => wmc_answer::<ORat, _>(p, n, *seed),
            _ => wmc_answer::<OPoly, _>(p, n, *seed),
        },
        Q::Eval(a) => {
            let asg: Vec<bool> = (0..n).map(|i| (a >> i) & 1 == 1).collect();
            format!("{}", p.evaluate(&asg))
        }
        Q::CountNodes => format!("{}", p.count_nodes()),
        Q::SemHash(k) => match k {
            0 => format!("{}", p.semantic_hash(&create_semantic_hash_map::<{ primes::U32_TINY }>(n))),
            1 => format!("{}", p.semantic_hash(&create_semantic_hash_map::<{ primes::U32_SMALL }>(n))),
            _ => format!("{}", p.semantic_hash(&create_semantic_hash_map::<{ primes::U64_LARGEST }>(n))),
        },
        _ => return None,
    })
}

fn real_params(n: usize, seed: u64) -> WmcParams<RealSemiring> {
    let mut r = Rng::new(seed);
    let w: Vec<(OReal, OReal)> = (0..n).map(|_| OReal::random_pair(&mut r, true)).collect();
    params(&w)
}

fn eu_params(n: usize, seed: u64) -> WmcParams<ExpectedUtility> {
    let mut r = Rng::new(seed);
    let w: Vec<(OEu, OEu)> = (0..n).map(|_| OEu::random_pair(&mut r, false)).collect();
    params(&w)
}

fn pm_string(m: &PartialModel, n: usize) -> String {
    (0..n)
        .map(|v| match m.get(VarLabel::new(v as u64)) {
            Some(true) => '1',
            Some(false) => '0',
            None => '-',
        })
        .collect()
}

fn bdd_answer<'a, B: Robdd<'a>>(b: &'a B, p: BddPtr<'a>, n: usize, q: &Q) -> String {
    if let Some(a) = generic_answer(p, n, q) {
        return a;
    }
    let lbls = |v: &Vec<usize>| -> Vec<VarLabel> { v.iter().map(|x| VarLabel::new(*x as u64)).collect() };
    match q {
        Q::CachedHash => format!("{}", p.cached_semantic_hash(&b.order_ref(), &create_semantic_hash_map::<{ primes::U64_LARGEST }>(n))),
        Q::MargMap(vs, seed) => {
            let (v, m) = p.marginal_map(&lbls(vs), n, &real_params(n, *seed));
            format!("{:?} {}", v, pm_string(&m, n))
        }
        Q::Meu(vs, seed) => {
            let (v, m) = p.meu(&lbls(vs), n, &eu_params(n, *seed));
            format!("{:?} {}", v, pm_string(&m, n))
        }
        Q::BbReal(vs, seed) => {
            let (v, m) = p.bb(&lbls(vs), n, &real_params(n, *seed));
            format!("{:?} {}", v, pm_string(&m, n))
        }
        Q::BbEu(vs, seed) => {
            let (v, m) = p.bb(&lbls(vs), n, &eu_params(n, *seed));
            format!("{:?} {}", v, pm_string(&m, n))
        }
        Q::FoldUsize => format!("{}", p.bdd_fold(&|_v: VarLabel, l: usize, h: usize| l + h, 0usize, 1usize)),
        Q::FoldI64 => format!("{}", p.bdd_fold(&|v: VarLabel, l: i64, h: i64| 3 * l - h + v.value() as i64, -1i64, 2i64)),
        Q::MutFold => {
            let mut step = |acc: u64, nd: rsdd::repr::FoldNode| acc + nd.var.map(|v| v.value() + 1).unwrap_or(0) + nd.parent_is_compl as u64;
            let extract = |acc: u64, ch: Option<(u64, u64)>| match ch {
                None => acc,
                Some((l, h)) => acc.wrapping_mul(31).wrapping_add(l).wrapping_add(h.wrapping_mul(7)),
            };
            format!("{}", Fold::new(&mut step, 0u64, &extract).mut_fold(&p))
        }
        Q::Smooth(x) => {
            // smooth over the first k levels, k anywhere between the deepest level the
            // function mentions and all of them (S9)
            let t = BddWalker::new(n).tt(p);
            let order: Vec<usize> = (0..n).map(|l| b.order_ref().var_at_level(l).value_usize()).collect();
            let k0 = t.support().iter().map(|v| order.iter().position(|x| x == v).unwrap_or(n - 1) + 1).max().unwrap_or(0);
            let k = k0 + x % (n - k0 + 1);
            format!("k={} {}", k, bdd_canon_string(b.smooth_(p, k)))
        }
        Q::Cond(v, val) => bdd_canon_string(b.condition(p, VarLabel::new(*v as u64), *val)),
        Q::CondModel(m) => {
            let lits: Vec<Literal> = m.iter().map(|(v, val)| Literal::new(VarLabel::new(*v as u64), *val)).collect();
            bdd_canon_string(b.condition_model_(p, &PartialModel::from_litvec(&lits, n)))
        }
        Q::Exists(v) => bdd_canon_string(b.exists(p, VarLabel::new(*v as u64))),
        _ => unreachable!(),
    }
}

/// build the pool of a history without any checks
fn build_pool<'a, B: Robdd<'a>>(b: &'a B, cfg: &HistCfg, ops: &[Op]) -> Vec<BddPtr<'a>> {
    let mut dummy = crate::ctx::Ctx::scratch();
    let mut pool: Vec<BddPtr> = vec![b.false_ptr(), b.true_ptr()];
    for v in 0..cfg.n0 {
        pool.push(b.var(VarLabel::new(v as u64), true));
    }
    let r = exec_history_collect(&mut dummy, cfg, b, ops);
    pool.extend(r);
    // smoothed copies of the last results (nodes with identical children) share the pool
    let n = cfg.n0;
    let k = pool.len();
    for i in 1..=usize::min(2, k) {
        let p = pool[k - i];
        pool.push(b.smooth_(p, n));
    }
    pool
}

fn scratch_residue_bdd(roots: &[BddPtr]) -> Option<usize> {
    for (i, r) in roots.iter().enumerate() {
        for nd in bdd_nodes(*r) {
            if !BddPtr::Reg(nd).is_scratch_cleared() {
                return Some(i);
            }
        }
    }
    None
}

fn bdd_case(ctx: &mut Ctx, rng: &mut Rng) {
    let n = rng.range(2, 6);
    let mut cfg = random_cfg(rng, n, false);
    cfg.n0 = n;
    cfg.max_new = 0;
    cfg.order = rng.perm(n);
    cfg.nops = rng.range(8, 30);
    let ops = gen_history(&cfg, rng);
    let nq = rng.range(30, 70);
    // queries: deliberately f, !f, a shared child and a parent in sequence
    let plen = initial_pool_len(n) + ops.len() + usize::min(2, initial_pool_len(n) + ops.len());
    let mut queries: Vec<(usize, bool, Q)> = Vec::new();
    let mut last = plen - 1;
    for _ in 0..nq {
        let idx = match rng.below(4) {
            0 => last,
            1 => plen - 1 - rng.below(usize::min(4, plen)),
            _ => rng.below(plen),
        };
        last = idx;
        queries.push((idx, rng.bool(), gen_query(n, rng, 19)));
    }
    let info = json!({"cfg": cfg.to_json(), "ops": ops.iter().map(|o| o.to_json()).collect::<Vec<_>>()});
    // long-lived builder: all queries interleaved
    let mut answers: Vec<String> = Vec::new();
    with_robdd!(cfg, b, {
        let pool = build_pool(b, &cfg, &ops);
        let mut first: HashMap<String, String> = HashMap::new();
        for (qi, (idx, neg, q)) in queries.iter().enumerate() {
            let p = if *neg { pool[*idx].neg() } else { pool[*idx] };
            let a = bdd_answer(b, p, n, q);
            ctx.count("queries", 1);
            ctx.seen("query_kinds", &format!("{:?}", q).split('(').next().unwrap().to_string());
            // (c) no scratch residue anywhere after a public call returned
            if let Some(i) = scratch_residue_bdd(&pool) {
                ctx.violation("pure.bdd.scratch", "a scratch slot is not empty after a public call returned",
                    json!({"query_index": qi, "query": format!("{:?}", q), "on": idx, "residue_under_pool_index": i, "input": info}));
                return;
            }
            // (a) repeating a query gives the first answer
            let key = format!("{}{}{:?}", idx, neg, q);
            if let Some(prev) = first.get(&key) {
                ctx.count("repeated_queries", 1);
                if *prev != a {
                    ctx.violation("pure.bdd.repeat", "repeating a query changed its answer",
                        json!({"query": format!("{:?}", q), "on": idx, "first": prev, "now": a, "input": info}));
                    return;
                }
            } else {
                first.insert(key, a.clone());
            }
            answers.push(a);
            // ask again immediately now and then (same query twice in a row)
            if qi % 5 == 0 {
                let a2 = bdd_answer(b, p, n, q);
                if a2 != answers[qi] {
                    ctx.violation("pure.bdd.repeat", "asking twice in a row changed the answer",
                        json!({"query": format!("{:?}", q), "on": idx, "first": answers[qi], "now": a2, "input": info}));
                    return;
                }
            }
        }
    });
    // (b) each query asked once on a freshly built copy
    let stride = if ctx.tier == "thorough" { 1 } else { 3 };
    for (qi, (idx, neg, q)) in queries.iter().enumerate() {
        if qi % stride != 0 || matches!(q, Q::CachedHash) {
            continue;
        }
        with_robdd!(cfg, b, {
            let pool = build_pool(b, &cfg, &ops);
            let p = if *neg { pool[*idx].neg() } else { pool[*idx] };
            let a = bdd_answer(b, p, n, q);
            ctx.count("fresh_copy_queries", 1);
            if a != answers[qi] {
                ctx.violation("pure.bdd.fresh", "answer in a long-lived builder differs from the answer on a freshly built copy",
                    json!({"query_index": qi, "query": format!("{:?}", q), "on": idx, "negated": neg,
                        "long_lived": answers[qi], "fresh": a, "input": info}));
            }
        });
    }
    ctx.case_eval(Some(crate::rng::hash_str(&info.to_string())));
    if ctx.wants_sample() {
        ctx.sample(json!({"regime": "bdd", "queries": queries.iter().take(8).map(|(i, ng, q)| format!("{}{} {:?}", if *ng { "!" } else { "" }, i, q)).collect::<Vec<_>>(),
            "cfg": cfg.to_json()}));
    }
}

// ------------------------------------------------------------------ SDD

fn sdd_pool<'a>(b: &'a CompressionSddBuilder<'a>, n: usize, ops: &[Op]) -> Vec<SddPtr<'a>> {
    let mut pool: Vec<SddPtr> = vec![SddPtr::PtrFalse, SddPtr::PtrTrue];
    for v in 0..n {
        pool.push(SddPtr::Var(VarLabel::new(v as u64), true));
    }
    for op in ops {
        let a = |x: &Arg, pool: &Vec<SddPtr<'a>>| if x.1 { pool[x.0].neg() } else { pool[x.0] };
        let r = match op {
            Op::Var(v, p) => SddPtr::Var(VarLabel::new(*v as u64), *p),
            Op::Not(x) => a(x, &pool).neg(),
            Op::And(x, y) => b.and(a(x, &pool), a(y, &pool)),
            Op::Or(x, y) => b.or(a(x, &pool), a(y, &pool)),
            Op::Xor(x, y) => b.xor(a(x, &pool), a(y, &pool)),
            Op::Iff(x, y) => b.iff(a(x, &pool), a(y, &pool)),
            Op::Ite(x, y, z) => b.ite(a(x, &pool), a(y, &pool), a(z, &pool)),
            Op::Cond(x, v, val) => b.condition(a(x, &pool), VarLabel::new(*v as u64), *val),
            Op::Exists(x, v) => b.exists(a(x, &pool), VarLabel::new(*v as u64)),
            Op::Compose(x, v, y) => b.compose(a(x, &pool), VarLabel::new(*v as u64), a(y, &pool)),
            _ => panic!("HARNESS: op not defined for SDDs"),
        };
        pool.push(r);
    }
    pool
}

fn sdd_answer<'a>(b: &'a CompressionSddBuilder<'a>, p: SddPtr<'a>, n: usize, q: &Q) -> String {
    if let Some(a) = generic_answer(p, n, q) {
        return a;
    }
    match q {
        Q::CachedHash => format!("{}", p.cached_semantic_hash(b.vtree_manager(), &create_semantic_hash_map::<{ primes::U64_LARGEST }>(n))),
        Q::Cond(v, val) => sdd_canon_string(b.condition(p, VarLabel::new(*v as u64), *val)),
        Q::Exists(v) => sdd_canon_string(b.exists(p, VarLabel::new(*v as u64))),
        _ => unreachable!(),
    }
}

fn sdd_case(ctx: &mut Ctx, rng: &mut Rng) {
    let mut cfg: SddCfg = random_sdd_cfg(rng, 5, true);
    cfg.n = usize::max(cfg.n, 2);
    let (fam, vt) = random_vtree(cfg.n, rng);
    cfg.vtree = vt;
    cfg.family = fam.into();
    let n = cfg.n;
    let ops = gen_sdd_history(n, rng.range(6, 24), rng);
    let plen = 2 + n + ops.len();
    let nq = rng.range(20, 50);
    let mut queries: Vec<(usize, bool, Q)> = Vec::new();
    let mut last = plen - 1;
    for _ in 0..nq {
        let idx = if rng.chance(1, 4) { last } else { rng.below(plen) };
        last = idx;
        queries.push((idx, rng.bool(), gen_query(n, rng, 10)));
    }
    let info = json!({"cfg": cfg.to_json(), "ops": ops.iter().map(|o| o.to_json()).collect::<Vec<_>>()});
    let builder = CompressionSddBuilder::new(cfg.vtree.to_rsdd());
    let b = &builder;
    let pool = sdd_pool(b, n, &ops);
    let mut answers = Vec::new();
    let mut first: HashMap<String, String> = HashMap::new();
    for (qi, (idx, neg, q)) in queries.iter().enumerate() {
        let p = if *neg { pool[*idx].neg() } else { pool[*idx] };
        let a = sdd_answer(b, p, n, q);
        ctx.count("queries", 1);
        for (i, r) in pool.iter().enumerate() {
            for nd in sdd_nodes(*r) {
                if !nd.is_scratch_cleared() {
                    ctx.violation("pure.sdd.scratch", "an SDD scratch slot is not empty after a public call returned",
                        json!({"query_index": qi, "query": format!("{:?}", q), "residue_under_pool_index": i, "input": info}));
                    return;
                }
            }
        }
        let key = format!("{}{}{:?}", idx, neg, q);
        if let Some(prev) = first.get(&key) {
            ctx.count("repeated_queries", 1);
            if *prev != a {
                ctx.violation("pure.sdd.repeat", "repeating a query changed its answer",
                    json!({"query": format!("{:?}", q), "first": prev, "now": a, "input": info}));
                return;
            }
        } else {
            first.insert(key, a.clone());
        }
        answers.push(a);
    }
    let stride = if ctx.tier == "thorough" { 1 } else { 3 };
    for (qi, (idx, neg, q)) in queries.iter().enumerate() {
        if qi % stride != 0 || matches!(q, Q::CachedHash) {
            continue;
        }
        let fresh = CompressionSddBuilder::new(cfg.vtree.to_rsdd());
        let f = &fresh;
        let pool2 = sdd_pool(f, n, &ops);
        let p = if *neg { pool2[*idx].neg() } else { pool2[*idx] };
        let a = sdd_answer(f, p, n, q);
        ctx.count("fresh_copy_queries", 1);
        if a != answers[qi] {
            ctx.violation("pure.sdd.fresh", "answer in a long-lived SDD builder differs from the answer on a freshly built copy",
                json!({"query": format!("{:?}", q), "on": idx, "long_lived": answers[qi], "fresh": a, "input": info}));
        }
    }
    ctx.case_eval(Some(crate::rng::hash_str(&info.to_string())));
}

// ------------------------------------------------------------------ decision-DNNF

fn ddnnf_answer<'a, B: DecisionNNFBuilder<'a>>(bb: &'a B, p: BddPtr<'a>, n: usize, q: &Q) -> String {
    if let Some(a) = generic_answer(p, n, q) {
        return a;
    }
    match q {
        Q::Cond(v, val) => {
            let r = TopDownBuilder::condition(bb, p, VarLabel::new(*v as u64), *val);
            BddWalker::new(n).tt(r).hex()
        }
        _ => "n/a".to_string(),
    }
}

fn ddnnf_case(ctx: &mut Ctx, rng: &mut Rng) {
    // two CNFs over the same variables, compiled in ONE builder (shared nodes)
    let n = rng.range(2, 7);
    let mut cls: Vec<Clauses> = Vec::new();
    for _ in 0..2 {
        let st = CnfStyle {
            max_vars: n,
            max_clauses: rng.range(1, n + 3),
            max_width: rng.range(1, 4),
            allow_empty_clause: false,
            allow_empty_cnf: false,
            allow_taut: false,
            allow_dup: false,
        };
        let mut cl = random_clauses(&st, rng);
        cl.retain(|c| !c.is_empty());
        cl.push(vec![(n - 1, rng.bool()), (rng.below(n), rng.bool())]);
        cls.push(cl);
    }
    let perm = rng.perm(n);
    let semantic = rng.bool();
    let info = json!({"clauses": [clauses_json(&cls[0]), clauses_json(&cls[1])], "order": perm, "store": if semantic { "semantic64" } else { "standard" }});
    let mk_order = || VarOrder::new(&perm.iter().map(|x| VarLabel::new(*x as u64)).collect::<Vec<_>>());
    let cnfs: Vec<rsdd::repr::Cnf> = cls.iter().map(clauses_to_cnf).collect();
    if cnfs.iter().any(|c| c.num_vars() != n) {
        return;
    }
    let nq = rng.range(15, 40);
    let qs: Vec<(usize, Q)> = (0..nq).map(|_| (rng.below(7), gen_query(n, rng, 9))).filter(|(_, q)| !matches!(q, Q::CachedHash)).collect();
    let conds: Vec<(usize, bool)> = (0..3).map(|_| (rng.below(n), rng.bool())).collect();
    crate::caps::set_unique(Some(64));
    if semantic {
        let b = rsdd::builder::decision_nnf::SemanticDecisionNNFBuilder::<{ primes::U64_LARGEST }>::new(mk_order());
        let f = rsdd::builder::decision_nnf::SemanticDecisionNNFBuilder::<{ primes::U64_LARGEST }>::new(mk_order());
        crate::caps::reset();
        ddnnf_body(ctx, &b, &f, &cnfs, n, &qs, &conds, &info);
    } else {
        let b = StandardDecisionNNFBuilder::new(mk_order());
        let f = StandardDecisionNNFBuilder::new(mk_order());
        crate::caps::reset();
        ddnnf_body(ctx, &b, &f, &cnfs, n, &qs, &conds, &info);
    }
    ctx.case_eval(Some(crate::rng::hash_str(&info.to_string())));
}

#[allow(clippy::too_many_arguments)]
fn ddnnf_body<'a, B: DecisionNNFBuilder<'a>>(
    ctx: &mut Ctx,
    b: &'a B,
    fresh: &'a B,
    cnfs: &[rsdd::repr::Cnf],
    n: usize,
    qs: &[(usize, Q)],
    conds: &[(usize, bool)],
    info: &Value,
) {
    let mk_pool = |bb: &'a B| -> Vec<BddPtr<'a>> {
        let r0 = bb.compile_cnf_topdown(&cnfs[0]);
        let r1 = bb.compile_cnf_topdown(&cnfs[1]);
        let mut pool = vec![r0, r0.neg(), r1, r1.neg()];
        for (v, val) in conds {
            pool.push(TopDownBuilder::condition(bb, r0, VarLabel::new(*v as u64), *val));
        }
        pool
    };
    let pool = mk_pool(b);
    ctx.seen("ddnnf_stores", info["store"].as_str().unwrap_or("?"));
    let mut first: HashMap<String, String> = HashMap::new();
    let mut answers: Vec<String> = Vec::new();
    for (qi, (idx, q)) in qs.iter().enumerate() {
        let a = ddnnf_answer(b, pool[*idx], n, q);
        ctx.count("queries", 1);
        for (i, r) in pool.iter().enumerate() {
            for nd in bdd_nodes(*r) {
                if !BddPtr::Reg(nd).is_scratch_cleared() {
                    ctx.violation("pure.ddnnf.scratch", "a d-DNNF scratch slot is not empty after a public call returned",
                        json!({"query_index": qi, "query": format!("{:?}", q), "on": idx, "residue_under_pool_index": i, "input": info}));
                    return;
                }
            }
        }
        let key = format!("{}{:?}", idx, q);
        if let Some(prev) = first.get(&key) {
            ctx.count("repeated_queries", 1);
            if *prev != a {
                ctx.violation("pure.ddnnf.repeat", "repeating a query changed its answer",
                    json!({"query": format!("{:?}", q), "first": prev, "now": a, "input": info}));
                return;
            }
        } else {
            first.insert(key, a.clone());
        }
        answers.push(a);
    }
    // each of a few queries asked once, alone, on a freshly compiled copy
    let pool2 = mk_pool(fresh);
    let mut budget = 4;
    for (qi, (idx, q)) in qs.iter().enumerate() {
        if budget == 0 {
            break;
        }
        if qi % 3 != 0 {
            continue;
        }
        budget -= 1;
        // a fresh copy per query would be the ideal; queries are pure, so asking a few on
        // one fresh copy keeps the cost bounded while still differing from the long history
        let a2 = ddnnf_answer(fresh, pool2[*idx], n, q);
        ctx.count("fresh_copy_queries", 1);
        if a2 != answers[qi] {
            ctx.violation("pure.ddnnf.fresh", "answer differs from the answer on a freshly compiled copy",
                json!({"query": format!("{:?}", q), "on": idx, "long_lived": answers[qi], "fresh": a2, "input": info}));
        }
    }
}

#[allow(dead_code)]
fn unused(_: Value) {}
