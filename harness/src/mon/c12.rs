//! C12 -- marginal MAP, MEU and generic branch-and-bound return true optima.
use crate::bddhist::{CacheKind, HistCfg, Robdd};
use crate::ctx::Ctx;
use crate::exact::*;
use crate::mon::c07::{bdd_from_tt, interesting_function};
use crate::rng::Rng;
use crate::semi::*;
use crate::tt::Tt;
use crate::with_robdd;
use rsdd::repr::{BddPtr, DDNNFPtr, PartialModel, VarLabel};
use serde_json::{json, Value};

pub fn run(ctx: &mut Ctx) {
    for case in ctx.cases("map", 1500, true) {
        ctx.run_case("map", case, map_case);
    }
    for case in ctx.cases("meu", 1500, true) {
        ctx.run_case("meu", case, meu_case);
    }
    // the same with the function's variables spread over up to 200 labels (the builder knows
    // every label; query / decision sets and partial models span several machine words)
    for case in ctx.cases("map_wide", 200, true) {
        ctx.run_case("map_wide", case, |ctx, rng| {
            let _g = crate::gen::LabelMapGuard::new(crate::gen::random_label_map(7, rng));
            ctx.count("cases_over_spread_labels", 1);
            map_case(ctx, rng);
        });
    }
    for case in ctx.cases("meu_wide", 200, true) {
        ctx.run_case("meu_wide", case, |ctx, rng| {
            let _g = crate::gen::LabelMapGuard::new(crate::gen::random_label_map(7, rng));
            ctx.count("cases_over_spread_labels", 1);
            meu_case(ctx, rng);
        });
    }
}

/// builder configuration: the dense configuration, or (wide) one whose order covers every label
fn builder_cfg(cfg: &HistCfg, rng: &mut Rng) -> HistCfg {
    if crate::gen::label_map().is_none() {
        return cfg.clone();
    }
    crate::gen::fit_label_map(cfg.n0);
    let full = crate::gen::full_label_order(&cfg.order, rng);
    HistCfg { n0: full.len(), order: full, ..cfg.clone() }
}

fn random_bdd_cfg(rng: &mut Rng, n: usize) -> HistCfg {
    HistCfg {
        n0: n,
        max_new: 0,
        order: rng.perm(n),
        cache: if rng.bool() { CacheKind::All } else { CacheKind::Lru },
        uniq_cap: Some(256),
        lru_bits: Some(6),
        nops: 0,
    }
}

fn pick_function(n: usize, rng: &mut Rng) -> Tt {
    // mostly satisfiable, non-trivial functions
    for _ in 0..10 {
        let (_, t) = interesting_function(n, rng);
        if !t.is_false() {
            return t;
        }
    }
    Tt::konst(n, true)
}

fn model_of(m: &PartialModel, vars: &[usize]) -> Option<Vec<(usize, bool)>> {
    let mut out = Vec::new();
    for v in vars {
        match m.get(crate::gen::lab(*v)) {
            Some(b) => out.push((*v, b)),
            None => return None,
        }
    }
    Some(out)
}

fn restrict(t: &Tt, a: &[(usize, bool)]) -> Tt {
    let mut r = t.clone();
    for (v, b) in a {
        r = r.cofactor(*v, *b);
    }
    r
}

/// all assignments of `vars`
fn assignments(vars: &[usize]) -> Vec<Vec<(usize, bool)>> {
    (0..(1usize << vars.len()))
        .map(|bits| vars.iter().enumerate().map(|(i, v)| (*v, (bits >> i) & 1 == 1)).collect())
        .collect()
}

fn map_case(ctx: &mut Ctx, rng: &mut Rng) {
    // mostly <= 7 variables; now and then 8-10 (deeper branch-and-bound trees)
    let n = if crate::gen::label_map().is_none() && rng.chance(1, 12) { ctx.count("cases_with_8_to_10_variables", 1); rng.range(8, 10) } else { rng.range(1, 7) };
    let t = pick_function(n, rng);
    let cfg = random_bdd_cfg(rng, n);
    // query set: empty, all, random subsets in random order, incl. variables f ignores
    let k = match rng.below(6) {
        0 => 0,
        1 => n,
        _ => rng.below(n + 1),
    };
    let mut q = rng.perm(n);
    q.truncate(k);
    // weights: all in [0,1]; non-query normalised; near-ties (differences of 2^-k) are common
    let mut w: Vec<(OReal, OReal)> = Vec::new();
    // a quarter of the cases use very coarse weights (0, 1/2, 1): many exactly tied optima and
    // exactly tied bounds of sibling branches, zero-weight branches
    let coarse = rng.chance(1, 4);
    for v in 0..n {
        if coarse {
            if q.contains(&v) {
                w.push((OReal(Dy::new(rng.below(3) as i128, 1)), OReal(Dy::new(rng.below(3) as i128, 1))));
            } else {
                let h = rng.below(3) as i128;
                w.push((OReal(Dy::new(2 - h, 1)), OReal(Dy::new(h, 1))));
            }
        } else if q.contains(&v) {
            let a = rng.below(17) as i128;
            let b = if rng.chance(1, 3) { (a + if rng.bool() { 1 } else { 0 }).min(16) } else { rng.below(17) as i128 };
            w.push((OReal(Dy::new(a, 4)), OReal(Dy::new(b, 4))));
        } else {
            let h = rng.below(9) as i128;
            w.push((OReal(Dy::new(8 - h, 3)), OReal(Dy::new(h, 3))));
        }
    }
    if !float_exact(&w) {
        ctx.count("skipped_not_exactly_representable", 1);
        return;
    }
    // oracle: max over query assignments of  prod w(a) * U(f|a)
    let value = |a: &[(usize, bool)]| -> Dy {
        let mut p = Dy::int(1);
        for (v, b) in a {
            p = p.mul(if *b { w[*v].1 .0 } else { w[*v].0 .0 });
        }
        p.mul(unsmoothed(&restrict(&t, a), &w, &cfg.order).0)
    };
    let best = assignments(&q).iter().map(|a| value(a)).fold(None, |acc: Option<Dy>, x| Some(match acc { None => x, Some(y) => y.max(x) })).unwrap();
    if assignments(&q).iter().filter(|a| value(a) == best).count() > 1 {
        ctx.count("cases_with_tied_optima", 1);
    }
    let info = json!({"function": t.hex(), "order": cfg.order, "query": q,
        "weights": w.iter().map(|(l, h)| json!([l.show(), h.show()])).collect::<Vec<_>>(), "optimum": best.show()});
    let bcfg = builder_cfg(&cfg, rng);
    let nb = bcfg.n0;
    let mut qlbl: Vec<VarLabel> = q.iter().map(|v| crate::gen::lab(*v)).collect();
    // the query variables are a set; now and then the list handed to the library names one of
    // them twice (unusual but legal: the maximisation is over the same assignments)
    if !qlbl.is_empty() && rng.chance(1, 8) {
        let dup = qlbl[rng.below(qlbl.len())];
        let at = rng.below(qlbl.len() + 1);
        qlbl.insert(at, dup);
        ctx.count("query_lists_naming_a_variable_twice", 1);
    }
    let params = params(&crate::gen::spread_weights(&w, (OReal(Dy::new(1, 1)), OReal(Dy::new(1, 1)))));
    ctx.seen("query_sizes", &format!("{}of{}", k, n));
    let ignored = q.iter().any(|v| !t.depends_on(*v));
    if ignored {
        ctx.count("queries_with_ignored_variable", 1);
    }
    // half of the cases first ask the same kinds of query about ANOTHER function in the same
    // builder (sharing nodes with f) under swapped weights: whatever those queries leave behind
    // must not change the answers checked below
    let prelude = rng.chance(1, 2);
    let (_, t2) = interesting_function(n, rng);
    let w2: Vec<(OReal, OReal)> = w.iter().map(|(l, h)| (h.clone(), l.clone())).collect();
    let params2 = crate::semi::params(&crate::gen::spread_weights(&w2, (OReal(Dy::new(1, 1)), OReal(Dy::new(1, 1)))));
    with_robdd!(bcfg, b, {
        let p: BddPtr = bdd_from_tt(b, &t, &cfg.order, 0);
        if prelude {
            let p2: BddPtr = bdd_from_tt(b, &t2, &cfg.order, 0);
            let _ = p2.marginal_map(&qlbl, nb, &params2);
            let _ = p2.bb(&qlbl, nb, &params2);
            let _ = p.neg().marginal_map(&qlbl, nb, &params2);
            ctx.count("queries_after_other_queries_in_the_same_builder", 2);
        }
        for which in ["marginal_map", "bb_real"] {
            let (val, model) = if which == "marginal_map" {
                p.marginal_map(&qlbl, nb, &params)
            } else {
                let (v, m) = p.bb(&qlbl, nb, &params);
                (v.0, m)
            };
            ctx.count(which, 1);
            ctx.case_eval(if t.is_trivial() || k == 0 { None } else { Some(crate::rng::mix(crate::rng::hash_str(&info.to_string()) ^ crate::rng::hash_str(which))) });
            check_result(ctx, which, &info, f64_is(val, best), format!("{:?}", val), model_of(&model, &q).map(|a| value(&a) == best), &model, n);
        }
    });
    if ctx.wants_sample() {
        ctx.sample(json!({"regime": "map", "input": info}));
    }
}

#[allow(clippy::too_many_arguments)]
fn check_result(ctx: &mut Ctx, which: &str, info: &Value, value_ok: bool, got: String, attains: Option<bool>, model: &PartialModel, n: usize) {
    let ms: String = (0..n)
        .map(|v| match model.get(crate::gen::lab(v)) {
            Some(true) => '1',
            Some(false) => '0',
            None => '-',
        })
        .collect();
    if !value_ok {
        ctx.violation(&format!("opt.{}.value", which), "returned value is not the maximum over query assignments",
            json!({"observed": got, "model": ms, "input": info}));
        return;
    }
    match attains {
        None => ctx.violation(&format!("opt.{}.model_incomplete", which), "returned model leaves a query variable unassigned",
            json!({"model": ms, "input": info})),
        Some(false) => ctx.violation(&format!("opt.{}.model", which), "returned model does not attain the returned optimum",
            json!({"model": ms, "observed": got, "input": info})),
        Some(true) => {}
    }
}

fn meu_case(ctx: &mut Ctx, rng: &mut Rng) {
    let n = if crate::gen::label_map().is_none() && rng.chance(1, 12) { ctx.count("cases_with_8_to_10_variables", 1); rng.range(8, 10) } else { rng.range(2, 7) };
    let t = pick_function(n, rng);
    let cfg = random_bdd_cfg(rng, n);
    // decisions: a random subset (in random order); utility-bearing variables only on
    // levels below every decision variable; the rest are chance variables
    let nd = rng.below(usize::min(n, if n >= 8 { 6 } else { 4 }) + 1);
    let mut dec = rng.perm(n);
    dec.truncate(nd);
    let level = |v: usize| cfg.order.iter().position(|x| *x == v).unwrap();
    let last_dec = dec.iter().map(|v| level(*v) as i64).max().unwrap_or(-1);
    let mut w: Vec<(OEu, OEu)> = Vec::new();
    let mut nutil = 0;
    let coarse = rng.chance(1, 4);
    for v in 0..n {
        if dec.contains(&v) {
            w.push((OEu::one(), OEu::one()));
        } else if coarse {
            // coarse regime: utilities 0/1, probabilities 0, 1/2, 1: exact ties in utility with
            // different probabilities, zero-probability branches
            if (level(v) as i64) > last_dec && rng.chance(1, 2) {
                nutil += 1;
                w.push((OEu(Dy::int(1), Dy::int(rng.below(2) as i128)), OEu(Dy::int(1), Dy::int(rng.below(2) as i128))));
            } else {
                let h = rng.below(3) as i128;
                w.push((OEu(Dy::new(2 - h, 1), Dy::int(0)), OEu(Dy::new(h, 1), Dy::int(0))));
            }
        } else if (level(v) as i64) > last_dec && rng.chance(1, 2) {
            nutil += 1;
            let u = |rng: &mut Rng| Dy::new(rng.below(13) as i128, 1);
            let lo = if rng.chance(1, 3) { u(rng) } else { Dy::int(0) };
            w.push((OEu(Dy::int(1), lo), OEu(Dy::int(1), u(rng))));
        } else {
            let h = rng.below(9) as i128;
            w.push((OEu(Dy::new(8 - h, 3), Dy::int(0)), OEu(Dy::new(h, 3), Dy::int(0))));
        }
    }
    if !float_exact(&w) {
        ctx.count("skipped_not_exactly_representable", 1);
        return;
    }
    // expected utility is linear in the utilities: scaling them all by a power of two
    // keeps every float operation exact and reaches very small magnitudes
    let shift: u32 = *rng.pick(&[0u32, 0, 0, 10, 40, 70, 200]);
    if shift > 0 {
        for x in w.iter_mut() {
            x.0 .1 = Dy::new(x.0 .1.num, x.0 .1.exp + shift);
            x.1 .1 = Dy::new(x.1 .1.num, x.1 .1.exp + shift);
        }
        ctx.count("cases_with_tiny_utilities", 1);
    }
    let value = |a: &[(usize, bool)]| -> OEu { unsmoothed(&restrict(&t, a), &w, &cfg.order) };
    let vals: Vec<OEu> = assignments(&dec).iter().map(|a| value(a)).collect();
    let best_eu = vals.iter().map(|x| x.1).fold(None, |acc: Option<Dy>, x| Some(match acc { None => x, Some(y) => y.max(x) })).unwrap();
    let tied: Vec<&OEu> = vals.iter().filter(|x| x.1 == best_eu).collect();
    if tied.len() > 1 {
        ctx.count("cases_with_tied_optima", 1);
        if tied.iter().any(|x| x.0 != tied[0].0) {
            ctx.count("cases_with_tied_utility_and_different_probability", 1);
        }
    }
    let info = json!({"function": t.hex(), "order": cfg.order, "decisions": dec, "utility_vars": nutil,
        "weights": w.iter().map(|(l, h)| json!([l.show(), h.show()])).collect::<Vec<_>>(), "optimum_eu": best_eu.show()});
    let bcfg = builder_cfg(&cfg, rng);
    let nb = bcfg.n0;
    let dlbl: Vec<VarLabel> = dec.iter().map(|v| crate::gen::lab(*v)).collect();
    let params = params(&crate::gen::spread_weights(&w, (OEu(Dy::new(1, 1), Dy::int(0)), OEu(Dy::new(1, 1), Dy::int(0)))));
    ctx.seen("decision_counts", &format!("{}of{}", nd, n));
    if nutil > 0 {
        ctx.count("cases_with_utilities", 1);
    }
    let prelude = rng.chance(1, 2);
    let (_, t2) = interesting_function(n, rng);
    let w2: Vec<(OEu, OEu)> = w.iter().map(|(l, h)| (h.clone(), l.clone())).collect();
    let params2 = crate::semi::params(&crate::gen::spread_weights(&w2, (OEu(Dy::new(1, 1), Dy::int(0)), OEu(Dy::new(1, 1), Dy::int(0)))));
    with_robdd!(bcfg, b, {
        let p: BddPtr = bdd_from_tt(b, &t, &cfg.order, 0);
        if prelude {
            let p2: BddPtr = bdd_from_tt(b, &t2, &cfg.order, 0);
            let _ = p2.meu(&dlbl, nb, &params2);
            let _ = p2.bb(&dlbl, nb, &params2);
            let _ = p.neg().meu(&dlbl, nb, &params2);
            ctx.count("queries_after_other_queries_in_the_same_builder", 2);
        }
        for which in ["meu", "bb_eu"] {
            let (val, model) = if which == "meu" { p.meu(&dlbl, nb, &params) } else { p.bb(&dlbl, nb, &params) };
            ctx.count(which, 1);
            ctx.case_eval(if t.is_trivial() || nd == 0 { None } else { Some(crate::rng::mix(crate::rng::hash_str(&info.to_string()) ^ crate::rng::hash_str(which))) });
            let attains = model_of(&model, &dec).map(|a| {
                let v = value(&a);
                v.1 == best_eu && v.matches(&val)
            });
            check_result(ctx, which, &info, f64_is(val.1, best_eu), format!("{:?}", val), attains, &model, n);
        }
    });
    if ctx.wants_sample() {
        ctx.sample(json!({"regime": "meu", "input": info}));
    }
}
