//! C11 -- semantic hashing is denotational; hash-identified builders stay correct.
use crate::bddhist::{CacheKind, HistCfg, Op, Robdd};
use crate::ctx::Ctx;
use crate::exact::*;
use crate::gen::*;
use crate::mon::c07::{bdd_from_tt, interesting_function};
use crate::rng::Rng;
use crate::sddhist::{gen_sdd_history, sdd_from_tt};
use crate::tt::Tt;
use crate::walk::{bdd_canon_string, sdd_canon_string, BddWalker, SddWalker};
use crate::with_robdd;
use rsdd::builder::decision_nnf::{DecisionNNFBuilder, SemanticDecisionNNFBuilder, StandardDecisionNNFBuilder};
use rsdd::builder::sdd::{CompressionSddBuilder, SddBuilder, SemanticSddBuilder};
use rsdd::builder::{BottomUpBuilder, TopDownBuilder};
use rsdd::constants::primes;
use rsdd::repr::{create_semantic_hash_map, BddPtr, DDNNFPtr, SddPtr, VarLabel, VarOrder, WmcParams};
use rsdd::util::semirings::FiniteField;
use serde_json::{json, Value};

pub fn run(ctx: &mut Ctx) {
    for case in ctx.cases("hash", 700, true) {
        ctx.run_case("hash", case, |ctx, rng| match case % 5 {
            0 => hash_case::<{ primes::U32_TINY }>(ctx, rng, "U32_TINY"),
            1 => hash_case::<{ primes::U32_SMALL }>(ctx, rng, "U32_SMALL"),
            2 => hash_case::<{ primes::U128_LARGE_3 }>(ctx, rng, "U128_LARGE_3"),
            3 => hash_case::<{ crate::semi::M107 }>(ctx, rng, "user prime 2^107-1"),
            _ => hash_case::<{ primes::U64_LARGEST }>(ctx, rng, "U64_LARGEST"),
        });
    }
    for case in ctx.cases("semantic_sdd", 900, true) {
        ctx.run_case("semantic_sdd", case, |ctx, rng| match case % 3 {
            0 => small_field(ctx, rng, |c, r| semantic_sdd_case::<{ primes::U32_TINY }>(c, r, false), |c, r| semantic_sdd_case::<{ primes::U64_LARGEST }>(c, r, true)),
            1 => small_field(ctx, rng, |c, r| semantic_sdd_case::<{ primes::U32_SMALL }>(c, r, false), |c, r| semantic_sdd_case::<{ primes::U64_LARGEST }>(c, r, true)),
            _ => semantic_sdd_case::<{ primes::U64_LARGEST }>(ctx, rng, true),
        });
    }
    // semantic SDD builders over vtrees whose variables are spread over up to 200 labels
    for case in ctx.cases("semantic_sdd_wide", 150, true) {
        ctx.run_case("semantic_sdd_wide", case, |ctx, rng| {
            let _g = crate::gen::LabelMapGuard::new(crate::gen::random_label_map(6, rng));
            ctx.count("semantic_builders_over_spread_labels", 1);
            match case % 2 {
                0 => small_field(ctx, rng, |c, r| semantic_sdd_case::<{ primes::U32_SMALL }>(c, r, false), |c, r| semantic_sdd_case::<{ primes::U64_LARGEST }>(c, r, true)),
                _ => semantic_sdd_case::<{ primes::U64_LARGEST }>(ctx, rng, true),
            }
        });
    }
    // scale: one hash-identified builder holding > 260 000 nodes (every suffix cube over 18
    // variables, 20 in the thorough tier): every one of the 2^n full cubes must still denote its own minterm
    let nbig = if ctx.tier == "thorough" { 6 } else { 2 };
    if !crate::caps::small() {
        for case in ctx.cases("semantic_big", nbig, false) {
            ctx.run_case("semantic_big", case, |ctx, rng| semantic_big(ctx, rng, case));
        }
    }
    // "over the 64-bit field": if the modulus had zero divisors, `and(a, b)` of two functions
    // whose hashes multiply to 0 would be answered False from the apply cache.  The case factors
    // the modulus (Miller-Rabin + Pollard rho); when it is composite with a balanced split it
    // searches (meet in the middle over the minterm weights of the builder's own map) two
    // ordinary 6-variable functions with such hashes, builds them through and/or and checks
    // and(a, b) against the truth table; when the modulus is prime there is nothing to find
    for case in ctx.cases("zero_divisors", 1, false) {
        ctx.run_case("zero_divisors", case, |ctx, _rng| zero_divisors::<{ primes::U64_LARGEST }>(ctx));
    }
    // recorded collisions of the 64-bit semantic hash under the weights of the once-constant
    // seed (F18): the hash-identified builders must return the right functions on them
    for case in ctx.cases("collision_witness", 2, false) {
        ctx.run_case("collision_witness", case, |ctx, _rng| collision_witness(ctx, case));
    }
    for case in ctx.cases("semantic_ddnnf", 500, true) {
        ctx.run_case("semantic_ddnnf", case, |ctx, rng| match case % 2 {
            0 => small_field(ctx, rng, |c, r| semantic_ddnnf_case::<{ primes::U32_SMALL }>(c, r, false), |c, r| semantic_ddnnf_case::<{ primes::U64_LARGEST }>(c, r, true)),
            _ => semantic_ddnnf_case::<{ primes::U64_LARGEST }>(ctx, rng, true),
        });
    }
}

/// A hash-identified builder over a 20- or 29-bit field.  Since F18 the hash weights are drawn per
/// process, so whether two different functions of a history collide in such a small field is
/// no longer a function of VERIF_SEED -- and once a builder has merged two different functions
/// its diagrams need not even be well-formed any more, so *every* later assertion about that
/// builder can fail without any defect in the library (first seen as a non-reproducible alarm
/// at VERIF_SEED=5; S21).  The small-field run is therefore a probe: it runs on a quiet context,
/// and only when it is clean is it taken over.  When it reports anything (or panics), the
/// identical history is run over the 64-bit field, where a collision has probability ~2^-50
/// and function correctness is demanded as well: a defect of the builder reproduces there and
/// is reported from that run; a failure that does not is attributed to a collision and counted.
fn small_field(ctx: &mut Ctx, rng: &mut Rng, small: impl FnOnce(&mut Ctx, &mut Rng), large: impl FnOnce(&mut Ctx, &mut Rng)) {
    let rng0 = rng.clone();
    let mut probe = Ctx::scratch();
    probe.quiet = true;
    probe.tier = ctx.tier.clone();
    probe.profile = ctx.profile.clone();
    let ok = std::panic::catch_unwind(std::panic::AssertUnwindSafe(|| small(&mut probe, rng))).is_ok();
    crate::caps::reset();
    if ok && probe.violations == 0 && probe.harness_errors == 0 {
        ctx.absorb(probe);
        return;
    }
    ctx.count("small_field_cases_rerun_over_the_64bit_field", 1);
    let before = ctx.violations;
    let mut r2 = rng0;
    large(ctx, &mut r2);
    if ctx.violations == before {
        ctx.count("small_field_failures_attributed_to_a_hash_collision", 1);
    }
}

/// the defining sum: over all models, the product of the hash weights
fn defining_sum<const P: u128>(t: &Tt, map: &WmcParams<FiniteField<P>>) -> u128 {
    let n = t.n;
    let w: Vec<(u128, u128)> = (0..n)
        .map(|v| {
            let (l, h) = map.var_weight(VarLabel::new(v as u64));
            (l.value(), h.value())
        })
        .collect();
    let mut total = 0u128;
    for a in 0..(1usize << n) {
        if t.get(a) {
            let mut p = 1u128 % P;
            for (v, wv) in w.iter().enumerate() {
                p = mulmod(p, if (a >> v) & 1 == 1 { wv.1 } else { wv.0 }, P);
            }
            total = addmod(total, p, P);
        }
    }
    total
}

fn hash_case<const P: u128>(ctx: &mut Ctx, rng: &mut Rng, pname: &str) {
    let n = rng.range(1, 7);
    let from_cnf = rng.chance(1, 2);
    let (kind, t, cl): (String, Tt, Option<Clauses>) = if from_cnf {
        let st = CnfStyle {
            max_vars: n,
            max_clauses: rng.range(1, n + 3),
            max_width: rng.range(1, 4),
            allow_empty_clause: false,
            allow_empty_cnf: false,
            allow_taut: false,
            allow_dup: false,
        };
        let mut cl = random_clauses(&st, rng);
        if clauses_num_vars(&cl) < n {
            // mention the last variable so that the CNF has exactly n variables
            cl.push(vec![(n - 1, rng.bool()), (rng.below(n), rng.bool())]);
        }
        let t = clauses_tt(&cl, n);
        ("cnf".into(), t, Some(cl))
    } else {
        let (k, t) = interesting_function(n, rng);
        (k, t, None)
    };
    let map = create_semantic_hash_map::<P>(n);
    // the hash weights must be normalised: low + high = 1 in the field
    for v in 0..n {
        let (l, h) = map.var_weight(VarLabel::new(v as u64));
        if addmod(l.value(), h.value(), P) != 1 {
            ctx.violation("hash.weights", "hash weights do not sum to one", json!({"var": v, "prime": pname}));
        }
    }
    let want = defining_sum(&t, &map);
    let want_neg = submod(1, want, P);
    let info = json!({"function": t.hex(), "kind": kind, "prime": pname});
    let nt = !t.is_trivial();
    let mut check = |ctx: &mut Ctx, got: u128, exp: u128, sub: &str, what: Value| {
        ctx.count("hash_checks", 1);
        ctx.case_eval(if nt { Some(crate::rng::mix(crate::rng::hash_str(&what.to_string()) ^ crate::rng::hash_str(&info.to_string()) ^ crate::rng::hash_str(sub))) } else { None });
        if got != exp {
            ctx.violation(sub, "semantic hash differs from the defining sum over models",
                json!({"observed": got.to_string(), "expected": exp.to_string(), "representation": what, "input": info}));
        }
    };
    // BDDs under several orders
    for _ in 0..3 {
        let cfg = HistCfg {
            n0: n,
            max_new: 0,
            order: rng.perm(n),
            cache: if rng.bool() { CacheKind::All } else { CacheKind::Lru },
            uniq_cap: Some(128),
            lru_bits: Some(5),
            nops: 0,
        };
        with_robdd!(cfg, b, {
            let p = bdd_from_tt(b, &t, &cfg.order, 0);
            let what = json!({"bdd_order": cfg.order});
            check(ctx, p.semantic_hash(&map).value(), want, "hash.bdd", what.clone());
            check(ctx, p.neg().semantic_hash(&map).value(), want_neg, "hash.bdd.neg", what.clone());
            // cached == recomputed (one prime and map per builder, S3); ask twice
            for _ in 0..2 {
                check(ctx, p.cached_semantic_hash(&b.order_ref(), &map).value(), want, "hash.bdd.cached", what.clone());
                check(ctx, p.neg().cached_semantic_hash(&b.order_ref(), &map).value(), want_neg, "hash.bdd.cached_neg", what.clone());
            }
            // a second construction history of the same function in the same builder
            let q = b.negate(bdd_from_tt(b, &t.not(), &cfg.order, 0));
            check(ctx, q.cached_semantic_hash(&b.order_ref(), &map).value(), want, "hash.bdd.cached_history", what.clone());
            ctx.count("bdd_representations", 1);
        });
    }
    // SDDs under several vtrees
    for _ in 0..2 {
        let (fam, vt) = random_vtree(n, rng);
        let builder = CompressionSddBuilder::new(vt.to_rsdd());
        let b = &builder;
        let p = sdd_from_tt(b, &t, 0);
        let what = json!({"sdd_vtree": vt.to_json(), "family": fam});
        check(ctx, p.semantic_hash(&map).value(), want, "hash.sdd", what.clone());
        check(ctx, p.neg().semantic_hash(&map).value(), want_neg, "hash.sdd.neg", what.clone());
        for _ in 0..2 {
            check(ctx, p.cached_semantic_hash(b.vtree_manager(), &map).value(), want, "hash.sdd.cached", what.clone());
            check(ctx, p.neg().cached_semantic_hash(b.vtree_manager(), &map).value(), want_neg, "hash.sdd.cached_neg", what.clone());
        }
        ctx.count("sdd_representations", 1);
    }
    // hand-built nodes through the public constructors (as rsdd's own unit tests build
    // them), also in shapes no builder stores (complemented / false high edge): the cached
    // hash is still the hash of the denoted function
    if n >= 2 {
        let perm = rng.perm(n);
        let top = perm[0];
        let lo_t = Tt::random(n, n, rng).cofactor(top, false);
        let hi_t = Tt::random(n, n, rng).cofactor(top, true);
        let node_t = Tt::var(n, top).ite(&hi_t, &lo_t);
        let node_want = defining_sum(&node_t, &map);
        // SDD: right-linear vtree with `top` first
        let vt = Vt::right_linear(&perm);
        let builder = CompressionSddBuilder::new(vt.to_rsdd());
        let b = &builder;
        let lo = sdd_from_tt(b, &lo_t, 0);
        let hi = sdd_from_tt(b, &hi_t, 0);
        for (l, h, tt, want_h, shape) in [
            (lo, hi, node_t.clone(), node_want, "as given"),
            (lo.neg(), hi.neg(), node_t.not(), submod(1, node_want, P), "both children negated"),
        ] {
            let node = rsdd::repr::BinarySDD::new(VarLabel::new(top as u64), l, h, b.vtree_manager().var_index(VarLabel::new(top as u64)));
            let p = SddPtr::BDD(&node);
            let what = json!({"handbuilt_binary_sdd": shape, "top": top, "high_is_complemented": h.is_neg(), "function": tt.hex()});
            check(ctx, p.cached_semantic_hash(b.vtree_manager(), &map).value(), want_h, "hash.sdd.handbuilt.cached", what.clone());
            check(ctx, p.semantic_hash(&map).value(), want_h, "hash.sdd.handbuilt", what.clone());
            check(ctx, p.neg().cached_semantic_hash(b.vtree_manager(), &map).value(), submod(1, want_h, P), "hash.sdd.handbuilt.cached_neg", what);
            ctx.count("handbuilt_nodes", 1);
        }
        // BDD: order = perm
        let cfg = HistCfg { n0: n, max_new: 0, order: perm.clone(), cache: CacheKind::All, uniq_cap: Some(128), lru_bits: Some(5), nops: 0 };
        with_robdd!(cfg, bb, {
            let lo = bdd_from_tt(bb, &lo_t, &cfg.order, 0);
            let hi = bdd_from_tt(bb, &hi_t, &cfg.order, 0);
            for (l, h, want_h, shape) in [(lo, hi, node_want, "as given"), (lo.neg(), hi.neg(), submod(1, node_want, P), "both children negated")] {
                let node = rsdd::repr::BddNode::new(VarLabel::new(top as u64), l, h);
                let p = BddPtr::Reg(&node);
                let what = json!({"handbuilt_bdd_node": shape, "top": top, "high_is_complemented": h.is_neg()});
                check(ctx, p.cached_semantic_hash(&bb.order_ref(), &map).value(), want_h, "hash.bdd.handbuilt.cached", what.clone());
                check(ctx, p.semantic_hash(&map).value(), want_h, "hash.bdd.handbuilt", what);
                ctx.count("handbuilt_nodes", 1);
            }
        });
    }
    // top-down decision-DNNFs under several orders
    if let Some(cl) = &cl {
        let cnf = clauses_to_cnf(cl);
        if cnf.num_vars() == n {
            for _ in 0..2 {
                let perm = rng.perm(n);
                let order = VarOrder::new(&perm.iter().map(|x| VarLabel::new(*x as u64)).collect::<Vec<_>>());
                let builder = StandardDecisionNNFBuilder::new(order);
                let p = builder.compile_cnf_topdown(&cnf);
                let what = json!({"ddnnf_order": perm});
                check(ctx, p.semantic_hash(&map).value(), want, "hash.ddnnf", what.clone());
                check(ctx, p.neg().semantic_hash(&map).value(), want_neg, "hash.ddnnf.neg", what);
                ctx.count("ddnnf_representations", 1);
            }
        }
    }
    ctx.seen("primes", pname);
    if ctx.wants_sample() {
        ctx.sample(json!({"regime": "hash", "input": info, "hash": want.to_string()}));
    }
}

/// operation histories on the hash-identified SDD builder (ite/iff/xor/compose are
/// todo!() there and excluded, as in the property)
fn semantic_sdd_case<const P: u128>(ctx: &mut Ctx, rng: &mut Rng, check_function: bool) {
    let n = rng.range(2, 6);
    let (fam, vt) = random_vtree(n, rng);
    let builder = SemanticSddBuilder::<P>::new(vt.to_rsdd());
    let b = &builder;
    let nops = rng.range(4, 20);
    let mut ops: Vec<Op> = gen_sdd_history(n, nops * 2, rng)
        .into_iter()
        .filter(|o| matches!(o, Op::Var(..) | Op::Not(..) | Op::And(..) | Op::Or(..) | Op::Cond(..) | Op::Exists(..)))
        .take(nops)
        .collect();
    if n >= 4 && rng.chance(1, 2) {
        // template: ((a&b)&(x&y)) | (!(a&b)&x), then condition on y: when a,b sit in
        // the prime side this leaves {(a&b, x), (!(a&b), x)}, an untrimmed node denoting x
        let vs = rng.perm(n);
        let (a, bb, x, y) = (2 + vs[0], 2 + vs[1], 2 + vs[2], 2 + vs[3]);
        let base = 2 + n + ops.len();
        ops.push(Op::And((a, false), (bb, false))); // base
        ops.push(Op::And((x, false), (y, false))); // base+1
        ops.push(Op::And((base, false), (base + 1, false))); // base+2
        ops.push(Op::And((base, true), (x, false))); // base+3
        ops.push(Op::Or((base + 2, false), (base + 3, false))); // base+4
        ops.push(Op::Cond((base + 4, false), vs[3], true));
        ops.push(Op::Exists((base + 4, false), vs[3]));
    }
    if n >= 3 && rng.chance(1, 2) {
        // template "one function along two routes": d = z & (x & (y | z)) equals x & z but is
        // reached through descendants (stored as an or-node of a different shape, possibly
        // complemented); afterwards x & z is requested directly from the literals
        let vs = rng.perm(n);
        let (x, y, z) = ((2 + vs[0], rng.bool()), (2 + vs[1], rng.bool()), (2 + vs[2], rng.bool()));
        let base = 2 + n + ops.len();
        ops.push(Op::Or(y, z)); // base
        ops.push(Op::And(x, (base, false))); // base+1
        ops.push(Op::And(z, (base + 1, false))); // base+2  == x & z
        ops.push(Op::And(x, z)); // base+3  == x & z, directly
        ops.push(Op::Or((x.0, !x.1), (z.0, !z.1))); // base+4 == !(x & z), directly
        ops.push(Op::And((base + 2, true), (base + 3, false))); // must be false
    }
    // condition / quantify the recent results on every variable now and then: this is
    // what leaves untrimmed nodes that denote literals or constants
    for k in 0..rng.range(2, 6) {
        let at = 2 + n + ops.len() - 1 - (k % 3).min(ops.len().saturating_sub(1));
        let v = rng.below(n);
        ops.push(if rng.bool() { Op::Cond((at, rng.bool()), v, rng.bool()) } else { Op::Exists((at, rng.bool()), v) });
    }
    let info = json!({"vtree": vt.to_json(), "family": fam, "prime_bits": if check_function { 64 } else { 32 },
        "ops": ops.iter().map(|o| o.to_json()).collect::<Vec<_>>()});
    let mut w = SddWalker::new(n);
    let mut pool: Vec<(SddPtr, Tt)> = vec![(SddPtr::PtrFalse, Tt::konst(n, false)), (SddPtr::PtrTrue, Tt::konst(n, true))];
    for v in 0..n {
        pool.push((SddPtr::Var(crate::gen::lab(v), true), Tt::var(n, v)));
    }
    // pool indices of gen_sdd_history refer to a pool that grows by one per op; after
    // filtering, clamp indices to the current pool
    for (step, op) in ops.iter().enumerate() {
        let plen = pool.len();
        macro_rules! arg {
            ($a:expr, $pool:expr) => {{
                let (p, t) = &$pool[$a.0 % plen];
                if $a.1 {
                    (p.neg(), t.not())
                } else {
                    (*p, t.clone())
                }
            }};
        }
        let (got, exp) = match op {
            Op::Var(v, p) => (b.var(crate::gen::lab(*v), *p), Tt::lit(n, *v, *p)),
            Op::Not(a) => {
                let (p, t) = arg!(a, pool);
                (b.negate(p), t.not())
            }
            Op::And(x, y) => {
                let (p, t) = arg!(x, pool);
                let (q, u) = arg!(y, pool);
                (b.and(p, q), t.and(&u))
            }
            Op::Or(x, y) => {
                let (p, t) = arg!(x, pool);
                let (q, u) = arg!(y, pool);
                (b.or(p, q), t.or(&u))
            }
            Op::Cond(x, v, val) => {
                let (p, t) = arg!(x, pool);
                (b.condition(p, crate::gen::lab(*v), *val), t.cofactor(*v, *val))
            }
            Op::Exists(x, v) => {
                let (p, t) = arg!(x, pool);
                (b.exists(p, crate::gen::lab(*v)), t.exists(*v))
            }
            _ => unreachable!(),
        };
        ctx.count("semantic_sdd_ops", 1);
        let got_tt = w.tt(got);
        ctx.case_eval(if exp.is_trivial() { None } else { Some(crate::rng::mix(exp.hash64() ^ crate::rng::hash_str(op.name()) ^ crate::rng::hash_str(&vt.to_json().to_string()))) });
        if got_tt != exp {
            if check_function {
                ctx.violation(&format!("semantic.sdd.op.{}", op.name()), "hash-identified SDD builder (64-bit field) returned a wrong function",
                    json!({"step": step, "op": op.to_json(), "observed": got_tt.hex(), "expected": exp.hex(), "input": info}));
            } else {
                // different functions merged under a 32-bit prime: a hash collision, recorded only (S4)
                ctx.count("collisions_32bit_recorded", 1);
            }
        }
        // the pool keeps what the builder returned, with the function it really denotes
        pool.push((got, got_tt));
    }
    // the builder's own accessors: cached hash == recomputed hash == the defining sum under the
    // builder's weight map (the function the node really denotes)
    for (p, t) in pool.iter().rev().take(6) {
        let cached = b.cached_semantic_hash(*p).value();
        let fresh = p.semantic_hash(b.map()).value();
        let mut total = 0u128;
        for a in 0..(1usize << n) {
            if t.get(a) {
                let mut pr = 1u128 % P;
                for v in 0..n {
                    let (l, h) = b.map().var_weight(crate::gen::lab(v));
                    pr = mulmod(pr, if (a >> v) & 1 == 1 { h.value() } else { l.value() }, P);
                }
                total = addmod(total, pr, P);
            }
        }
        ctx.count("builder_hash_accessor_checks", 1);
        if cached != fresh || fresh != total {
            ctx.violation("semantic.sdd.builder_hash", "SemanticSddBuilder::cached_semantic_hash / map(): cached, recomputed and defining-sum hashes differ",
                json!({"cached": cached.to_string(), "recomputed": fresh.to_string(), "defining_sum": total.to_string(), "function": t.hex(), "input": info}));
            break;
        }
    }
    for (p, t) in pool.iter() {
        if t.is_trivial() && !matches!(p, SddPtr::Var(..) | SddPtr::PtrTrue | SddPtr::PtrFalse) {
            ctx.count("untrimmed_nodes_denoting_literal_or_constant", 1);
        }
    }
    // equal functions are never judged different (either argument order)
    for i in 0..pool.len() {
        for j in 0..pool.len() {
            for (ni, nj) in [(false, false), (true, true)] {
                let (p, t) = if ni { (pool[i].0.neg(), pool[i].1.not()) } else { (pool[i].0, pool[i].1.clone()) };
                let (q, u) = if nj { (pool[j].0.neg(), pool[j].1.not()) } else { (pool[j].0, pool[j].1.clone()) };
                if t == u {
                    ctx.count("eq_on_equal_functions", 1);
                    if !b.eq(p, q) {
                        ctx.violation("semantic.sdd.eq", "hash-identified SDD builder judges two equal functions different",
                            json!({"i": i, "j": j, "negated": ni, "function": t.hex(), "first": sdd_canon_string(p), "second": sdd_canon_string(q), "input": info}));
                        return;
                    }
                }
            }
        }
    }
    // compile_cnf on the same kind of builder
    let st = CnfStyle {
        max_vars: n,
        max_clauses: rng.range(1, n + 2),
        max_width: 3,
        allow_empty_clause: false,
        allow_empty_cnf: false,
        allow_taut: false,
        allow_dup: false,
    };
    let cl = random_clauses(&st, rng);
    if clauses_num_vars(&cl) <= n && !cl.is_empty() {
        let b2 = SemanticSddBuilder::<P>::new(vt.to_rsdd());
        let r = b2.compile_cnf(&clauses_to_cnf(&cl));
        let t = clauses_tt(&cl, n);
        let g = SddWalker::new(n).tt(r);
        ctx.count("semantic_sdd_compile_cnf", 1);
        if g != t {
            if check_function {
                ctx.violation("semantic.sdd.compile_cnf", "hash-identified SDD builder (64-bit field) compiled a wrong function",
                    json!({"clauses": clauses_json(&cl), "observed": g.hex(), "expected": t.hex(), "vtree": vt.to_json()}));
            } else {
                ctx.count("collisions_32bit_recorded", 1);
            }
        }
    }
    if ctx.wants_sample() {
        ctx.sample(json!({"regime": "semantic_sdd", "input": info}));
    }
}

fn powmod(mut b: u128, mut e: u128, m: u128) -> u128 {
    let mut r = 1u128 % m;
    b %= m;
    while e > 0 {
        if e & 1 == 1 {
            r = mulmod(r, b, m);
        }
        b = mulmod(b, b, m);
        e >>= 1;
    }
    r
}

/// deterministic Miller-Rabin (the first 12 primes as bases decide every n < 3.3 * 10^24)
fn is_prime(n: u128) -> bool {
    if n < 2 {
        return false;
    }
    const BASES: [u128; 12] = [2, 3, 5, 7, 11, 13, 17, 19, 23, 29, 31, 37];
    for p in BASES {
        if n % p == 0 {
            return n == p;
        }
    }
    let (mut d, mut s) = (n - 1, 0);
    while d % 2 == 0 {
        d /= 2;
        s += 1;
    }
    'outer: for a in BASES {
        let mut x = powmod(a, d, n);
        if x == 1 || x == n - 1 {
            continue;
        }
        for _ in 0..s - 1 {
            x = mulmod(x, x, n);
            if x == n - 1 {
                continue 'outer;
            }
        }
        return false;
    }
    true
}

fn gcd(mut a: u128, mut b: u128) -> u128 {
    while b != 0 {
        let t = a % b;
        a = b;
        b = t;
    }
    a
}

/// all prime factors (with multiplicity) by Pollard rho; deterministic sequence of constants
fn factorize(n: u128, out: &mut Vec<u128>) {
    if n == 1 {
        return;
    }
    if is_prime(n) {
        out.push(n);
        return;
    }
    if n % 2 == 0 {
        out.push(2);
        return factorize(n / 2, out);
    }
    let mut c = 1u128;
    loop {
        let (mut x, mut y, mut d) = (2u128, 2u128, 1u128);
        while d == 1 {
            x = addmod(mulmod(x, x, n), c, n);
            y = addmod(mulmod(y, y, n), c, n);
            y = addmod(mulmod(y, y, n), c, n);
            d = gcd(if x > y { x - y } else { y - x }, n);
        }
        if d != n {
            factorize(d, out);
            return factorize(n / d, out);
        }
        c += 1;
    }
}

/// a set of minterms containing minterm 0 whose weights sum to 0 modulo q (meet in the middle
/// over minterms 1..=2*half)
fn zero_sum_subset(w: &[u128], q: u128, half: usize) -> Option<u64> {
    let left: Vec<usize> = (1..=half).collect();
    let right: Vec<usize> = (half + 1..=2 * half).collect();
    let sums = |items: &[usize]| -> Vec<(u128, u32)> {
        let mut v = vec![(0u128, 0u32)];
        for (k, &i) in items.iter().enumerate() {
            let wi = w[i] % q;
            for j in 0..v.len() {
                let (s, mask) = v[j];
                v.push(((s + wi) % q, mask | (1 << k)));
            }
        }
        v
    };
    let mut ls = sums(&left);
    ls.sort();
    let base = w[0] % q;
    for (s, rmask) in sums(&right) {
        let want = (2 * q - base - s) % q;
        let idx = ls.partition_point(|probe| probe.0 < want);
        if idx < ls.len() && ls[idx].0 == want {
            let lmask = ls[idx].1;
            let mut set = 1u64;
            for k in 0..half {
                if (lmask >> k) & 1 == 1 {
                    set |= 1u64 << left[k];
                }
                if (rmask >> k) & 1 == 1 {
                    set |= 1u64 << right[k];
                }
            }
            return Some(set);
        }
    }
    None
}

fn zero_divisors<const P: u128>(ctx: &mut Ctx) {
    const N: usize = 6;
    ctx.case_eval(Some(crate::rng::mix(0x2d ^ (P as u64))));
    let mut fs = Vec::new();
    factorize(P, &mut fs);
    fs.sort();
    ctx.count("moduli_factored", 1);
    if fs.len() == 1 {
        ctx.count("modulus_is_prime", 1);
    }
    // most balanced split of the prime factors into two co-factors
    let (mut q1, mut q2) = (1u128, P);
    for mask in 1u32..(1 << fs.len()) - 1 {
        let a: u128 = fs.iter().enumerate().filter(|(i, _)| (mask >> i) & 1 == 1).map(|(_, f)| *f).product();
        let b = P / a;
        if u128::max(a, b) < u128::max(q1, q2) {
            (q1, q2) = (a, b);
        }
    }
    let vars: Vec<VarLabel> = (0..N).map(|i| VarLabel::new(i as u64)).collect();
    let builder = SemanticSddBuilder::<P>::new(rsdd::repr::VTree::right_linear(&vars));
    let b = &builder;
    let mut w = vec![0u128; 1 << N];
    for (m, wm) in w.iter_mut().enumerate() {
        let mut x = 1u128;
        for (i, v) in vars.iter().enumerate() {
            let (lo, hi) = b.map().var_weight(*v);
            x = mulmod(x, if (m >> i) & 1 == 1 { hi.value() } else { lo.value() }, P);
        }
        *wm = x;
    }
    // two functions (sets of minterms, both containing minterm 0): zero divisors if there are any
    let found = if fs.len() > 1 && u128::max(q1, q2) < (1u128 << 37) {
        match (zero_sum_subset(&w, q1, 19), zero_sum_subset(&w, q2, 19)) {
            (Some(x), Some(y)) => Some((x, y)),
            _ => None,
        }
    } else {
        None
    };
    if fs.len() > 1 && found.is_none() {
        ctx.count("composite_modulus_without_constructed_zero_divisors", 1);
    }
    let (ta, tb) = found.unwrap_or((0x0123_4567_89ab_cdefu64 | 1, 0xfedc_ba98_7654_3211u64));
    let mk = |t: u64| -> SddPtr {
        let mut f = SddPtr::PtrFalse;
        for m in 0..(1usize << N) {
            if (t >> m) & 1 == 1 {
                let mut c = SddPtr::PtrTrue;
                for i in (0..N).rev() {
                    c = b.and(b.var(VarLabel::new(i as u64), (m >> i) & 1 == 1), c);
                }
                f = b.or(f, c);
            }
        }
        f
    };
    let tt_of = |p: SddPtr| -> u64 {
        let t = SddWalker::new(N).tt(p);
        (0..64usize).fold(0u64, |acc, m| if t.get(m) { acc | (1u64 << m) } else { acc })
    };
    let (a, bb) = (mk(ta), mk(tb));
    if tt_of(a) != ta || tt_of(bb) != tb {
        ctx.violation("semantic.sdd.zero_divisors", "a disjunction of minterms built by the hash-identified SDD builder (64-bit field) denotes a wrong function",
            json!({"modulus": P.to_string(), "factors": fs.iter().map(|f| f.to_string()).collect::<Vec<_>>()}));
        return;
    }
    let r = b.and(a, bb);
    ctx.count("zero_divisor_conjunctions_checked", 1);
    if tt_of(r) != ta & tb {
        ctx.violation("semantic.sdd.zero_divisors", "and(a, b) on the hash-identified SDD builder (64-bit field) does not denote a AND b: the hashes of a and b multiply to zero",
            json!({"modulus": P.to_string(), "factors": fs.iter().map(|f| f.to_string()).collect::<Vec<_>>(),
                "a": format!("{:#018x}", ta), "b": format!("{:#018x}", tb), "expected": format!("{:#018x}", ta & tb), "observed": format!("{:#018x}", tt_of(r)),
                "hash_a": b.cached_semantic_hash(a).value().to_string(), "hash_b": b.cached_semantic_hash(bb).value().to_string()}));
    }
}

/// all suffix cubes over n variables in ONE semantic builder (d-DNNF store for even cases, SDD
/// builder on a right-linear vtree for odd ones), built bottom-up through the public node /
/// apply interface; then every full cube is evaluated structurally on its own assignment and on
/// two neighbours.  With 64-bit hashes a merge of two different cubes has probability ~2^-28.
fn semantic_big(ctx: &mut Ctx, rng: &mut Rng, case: u64) {
    use rsdd::builder::decision_nnf::DecisionNNFBuilder;
    let n = if ctx.tier == "thorough" { 20usize } else { 18usize };
    let perm = rng.perm(n);
    let mut checked = 0u64;
    let mut bad: Option<String> = None;
    if case % 2 == 0 {
        let order = VarOrder::new(&perm.iter().map(|x| VarLabel::new(*x as u64)).collect::<Vec<_>>());
        let builder = SemanticDecisionNNFBuilder::<{ primes::U64_LARGEST }>::new(order);
        let b = &builder;
        // level by level from the bottom: cubes[k] = all cubes over the variables at levels k..n
        let mut cur: Vec<BddPtr> = vec![BddPtr::PtrTrue];
        for lvl in (0..n).rev() {
            let v = VarLabel::new(perm[lvl] as u64);
            let mut next = Vec::with_capacity(cur.len() * 2);
            for c in &cur {
                // index bit (n-1-lvl) of the position = value of the variable at this level
                next.push(b.get_or_insert(rsdd::repr::BddNode::new(v, *c, BddPtr::PtrFalse)));
            }
            for c in &cur {
                next.push(b.get_or_insert(rsdd::repr::BddNode::new(v, BddPtr::PtrFalse, *c)));
            }
            cur = next;
            ctx.count("semantic_big_nodes", cur.len() as u64);
        }
        // cur[i]: bit (n-1-lvl) of i is the value of the variable at level lvl
        for (i, p) in cur.iter().enumerate() {
            let mut asg = 0usize;
            for lvl in 0..n {
                if (i >> (n - 1 - lvl)) & 1 == 1 {
                    asg |= 1 << perm[lvl];
                }
            }
            checked += 1;
            let flip1 = asg ^ (1 << (i % n));
            let flip2 = asg ^ (1 << ((i / n) % n));
            if !crate::walk::bdd_eval_path(*p, asg) || crate::walk::bdd_eval_path(*p, flip1) || crate::walk::bdd_eval_path(*p, flip2) {
                bad = Some(format!("d-DNNF store: the diagram returned for minterm {:#x} does not denote it", asg));
                break;
            }
        }
    } else {
        let lbls: Vec<VarLabel> = perm.iter().map(|x| VarLabel::new(*x as u64)).collect();
        let builder = SemanticSddBuilder::<{ primes::U64_LARGEST }>::new(rsdd::repr::VTree::right_linear(&lbls));
        let b = &builder;
        let mut cur: Vec<SddPtr> = vec![SddPtr::PtrTrue];
        for lvl in (0..n).rev() {
            let v = VarLabel::new(perm[lvl] as u64);
            let mut next = Vec::with_capacity(cur.len() * 2);
            for c in &cur {
                next.push(b.and(SddPtr::Var(v, false), *c));
            }
            for c in &cur {
                next.push(b.and(SddPtr::Var(v, true), *c));
            }
            cur = next;
            ctx.count("semantic_big_nodes", cur.len() as u64);
        }
        fn eval(p: SddPtr, a: usize) -> bool {
            match p {
                SddPtr::PtrTrue => true,
                SddPtr::PtrFalse => false,
                SddPtr::Var(l, pol) => ((a >> l.value_usize()) & 1 == 1) == pol,
                SddPtr::BDD(_) | SddPtr::ComplBDD(_) => {
                    let neg = matches!(p, SddPtr::ComplBDD(_));
                    let (lbl, lo, hi) = match p {
                        SddPtr::BDD(x) | SddPtr::ComplBDD(x) => (x.label(), x.low(), x.high()),
                        _ => unreachable!(),
                    };
                    let r = if (a >> lbl.value_usize()) & 1 == 1 { eval(hi, a) } else { eval(lo, a) };
                    r != neg
                }
                SddPtr::Reg(o) | SddPtr::Compl(o) => {
                    let neg = matches!(p, SddPtr::Compl(_));
                    let r = o.iter().any(|e| eval(e.prime(), a) && eval(e.sub(), a));
                    r != neg
                }
            }
        }
        for (i, p) in cur.iter().enumerate() {
            let mut asg = 0usize;
            for lvl in 0..n {
                if (i >> (n - 1 - lvl)) & 1 == 1 {
                    asg |= 1 << perm[lvl];
                }
            }
            checked += 1;
            let flip1 = asg ^ (1 << (i % n));
            let flip2 = asg ^ (1 << ((i / n) % n));
            if !eval(*p, asg) || eval(*p, flip1) || eval(*p, flip2) {
                bad = Some(format!("SDD builder: the diagram returned for minterm {:#x} does not denote it", asg));
                break;
            }
        }
    }
    ctx.count("semantic_big_builders", 1);
    ctx.count("semantic_big_minterms_checked", checked);
    ctx.case_eval(Some(crate::rng::mix(0xb16 ^ case)));
    if let Some(why) = bad {
        ctx.violation("semantic.big", "a hash-identified builder holding > 260 000 nodes (64-bit field) returned a diagram of a wrong function",
            json!({"why": why, "order": perm, "store": if case % 2 == 0 { "d-DNNF" } else { "SDD" }}));
    }
}

fn semantic_ddnnf_case<const P: u128>(ctx: &mut Ctx, rng: &mut Rng, check_function: bool) {
    let mv = rng.range(2, 8);
    let st = CnfStyle {
        max_vars: mv,
        max_clauses: rng.range(1, mv + 3),
        max_width: rng.range(1, 4),
        allow_empty_clause: false,
        allow_empty_cnf: false,
        allow_taut: false,
        allow_dup: false,
    };
    let cl = random_clauses(&st, rng);
    let n = clauses_num_vars(&cl);
    if n == 0 {
        return;
    }
    let t = clauses_tt(&cl, n);
    let cnf = clauses_to_cnf(&cl);
    let perm = rng.perm(n);
    let order = VarOrder::new(&perm.iter().map(|x| VarLabel::new(*x as u64)).collect::<Vec<_>>());
    let builder = SemanticDecisionNNFBuilder::<P>::new(order);
    let b = &builder;
    let r = b.compile_cnf_topdown(&cnf);
    let info = json!({"clauses": clauses_json(&cl), "order": perm, "prime_bits": if check_function { 64 } else { 32 }});
    let mut w = BddWalker::new(n);
    ctx.count("semantic_ddnnf_compilations", 1);
    ctx.case_eval(if t.is_trivial() { None } else { Some(crate::rng::hash_str(&info.to_string())) });
    let g = w.tt(r);
    if g != t {
        if check_function {
            ctx.violation("semantic.ddnnf.compile", "hash-identified top-down builder (64-bit field) compiled a wrong function",
                json!({"observed": g.hex(), "expected": t.hex(), "diagram": bdd_canon_string(r), "input": info}));
        } else {
            ctx.count("collisions_32bit_recorded", 1);
        }
        return;
    }
    // the hash of the result is the defining sum, under the builder's own prime
    let map = create_semantic_hash_map::<P>(n);
    let want = defining_sum(&t, &map);
    if r.semantic_hash(&map).value() != want {
        ctx.violation("semantic.ddnnf.hash", "hash of the top-down result differs from the defining sum",
            json!({"observed": r.semantic_hash(&map).value().to_string(), "expected": want.to_string(), "input": info}));
    }
    if check_function {
        for v in 0..n {
            for val in [false, true] {
                for (p, tt) in [(r, t.clone()), (r.neg(), t.not())] {
                    let c = TopDownBuilder::condition(b, p, VarLabel::new(v as u64), val);
                    ctx.count("semantic_ddnnf_conditionings", 1);
                    if w.tt(c) != tt.cofactor(v, val) {
                        ctx.violation("semantic.ddnnf.condition", "conditioning on the hash-identified top-down builder gave a wrong function",
                            json!({"var": v, "value": val, "input": info}));
                    }
                }
            }
        }
    }
}


/// F18: the two recorded collision witnesses of the semantic hash over `U64_LARGEST`
fn collision_witness(ctx: &mut Ctx, case: u64) {
    use crate::witness::*;
    const P: u128 = primes::U64_LARGEST;
    ctx.case_eval(Some(crate::rng::mix(0xF18 ^ case)));
    ctx.count("collision_witnesses_checked", 1);
    if case == 0 {
        const N: usize = 7;
        let vars: Vec<VarLabel> = (0..N).map(|i| VarLabel::new(i as u64)).collect();
        let builder = SemanticSddBuilder::<P>::new(rsdd::repr::VTree::right_linear(&vars));
        let b = &builder;
        let tf = Tt::from_fn(N, |a| SEM_F.contains(&a));
        let tg = Tt::from_fn(N, |a| SEM_G.contains(&a));
        // does the recorded pair collide under the weights of this process? (informational)
        if defining_sum::<P>(&tf, b.map()) == defining_sum::<P>(&tg, b.map()) {
            ctx.count("witness_pairs_colliding_under_the_current_weights", 1);
        }
        let dnf = |models: &[usize]| -> SddPtr {
            let mut acc = SddPtr::PtrFalse;
            for m in models {
                let mut cube = SddPtr::PtrTrue;
                for i in 0..N {
                    cube = b.and(cube, b.var(VarLabel::new(i as u64), (m >> i) & 1 == 1));
                }
                acc = b.or(acc, cube);
            }
            acc
        };
        let f = dnf(&SEM_F);
        let g = dnf(&SEM_G);
        let d = b.and(f, b.negate(g));
        let mut w = SddWalker::new(N);
        for (name, p, exp) in [("F", f, &tf), ("G", g, &tg), ("F & !G", d, &tf)] {
            let got = w.tt(p);
            if got != *exp {
                ctx.violation("semantic.collision_witness", "a hash-identified SDD builder over the 64-bit field returns a diagram of the wrong function (recorded semantic-hash collision)",
                    json!({"witness": 4, "which": name, "observed": got.hex(), "expected": exp.hex(), "models_of_F": SEM_F.to_vec(), "models_of_G": SEM_G.to_vec()}));
                return;
            }
        }
        if b.eq(f, g) {
            ctx.violation("semantic.collision_witness", "two functions with disjoint model sets are judged equal over the 64-bit field (recorded semantic-hash collision)", json!({"witness": 4}));
        }
    } else {
        let cl: Clauses = witness5();
        let exp = clauses_tt(&cl, 7);
        let cnf = clauses_to_cnf(&cl);
        let builder = SemanticDecisionNNFBuilder::<P>::new(VarOrder::linear_order(7));
        let r = builder.compile_cnf_topdown(&cnf);
        let got = BddWalker::new(7).tt(r);
        if got != exp {
            ctx.violation("semantic.collision_witness", "the hash-identified decision-DNNF builder over the 64-bit field compiles a CNF to the wrong function (recorded semantic-hash collision)",
                json!({"witness": 5, "observed": got.hex(), "expected": exp.hex(), "clauses": clauses_json(&cl)}));
        }
    }
}
