//! C06 -- top-down CNF compilation to decision-DNNF is exact.
use crate::ctx::Ctx;
use crate::gen::*;
use crate::rng::{all_perms, Rng};
use crate::tt::Tt;
use crate::walk::{bdd_canon_string, bdd_nodes, BddWalker};
use rsdd::builder::decision_nnf::{DecisionNNFBuilder, SemanticDecisionNNFBuilder, StandardDecisionNNFBuilder};
use rsdd::builder::TopDownBuilder;
use rsdd::constants::primes;
use rsdd::repr::{BddNode, BddPtr, DDNNFPtr, VarLabel, VarOrder};
use serde_json::{json, Value};
use std::collections::HashMap;

pub fn run(ctx: &mut Ctx) {
    // all orders for CNFs over <= 4 variables
    for case in ctx.cases("allorders", 400, true) {
        ctx.run_case("allorders", case, |ctx, rng| {
            let cl = gen_cnf(rng, 4);
            let n = clauses_to_cnf(&cl).num_vars();
            for p in all_perms(n) {
                one(ctx, &cl, &p, rng.bool());
            }
        });
    }
    // fixed regression inputs (each under several orders): UNSAT only after branching
    // while literals are implied initially
    for case in ctx.cases("regress", 24, false) {
        ctx.run_case("regress", case, |ctx, rng| {
            let cl: Clauses = vec![
                vec![(2, true), (4, true), (5, true)],
                vec![(3, true)],
                vec![(2, false), (3, false), (5, true)],
                vec![(0, true), (1, false), (3, false), (5, false)],
                vec![(3, false), (4, false), (5, true)],
                vec![(5, false)],
            ];
            let p = if case == 0 { (0..6).collect() } else { rng.perm(6) };
            one(ctx, &cl, &p, case % 2 == 1);
            // x3 implied, then (x0|x1)(x0|!x1)(!x0|x1)(!x0|!x1) is UNSAT after branching
            let cl2: Clauses = vec![
                vec![(3, true)],
                vec![(0, true), (1, true)],
                vec![(0, true), (1, false)],
                vec![(0, false), (1, true)],
                vec![(0, false), (1, false)],
                vec![(2, true), (3, false)],
            ];
            let p2 = rng.perm(4);
            one(ctx, &cl2, &p2, case % 2 == 0);
        });
    }
    for case in ctx.cases("rand", 2500, true) {
        ctx.run_case("rand", case, |ctx, rng| {
            let cl = gen_cnf(rng, 9);
            let n = clauses_to_cnf(&cl).num_vars();
            let p = rng.perm(n);
            one(ctx, &cl, &p, false);
            one(ctx, &cl, &p, true);
        });
    }
    // (this regime runs before the expensive ones: a change that makes the component cache useless
    // lets the wide regime and the witnesses run into the watchdog, and a wrong answer provoked
    // here is then still reported)
    // fault injection on hash quality (hook H5): the residual hash keeps only its low 0..8 bits,
    // so different residual formulas share a component-cache key all the time; the compiled
    // function must not depend on the hash function (F17: the cache used to trust the hash alone)
    for case in ctx.cases("weak_hash", 500, true) {
        ctx.run_case("weak_hash", case, |ctx, rng| {
            struct Reset;
            impl Drop for Reset {
                fn drop(&mut self) {
                    rsdd::verif::set_residual_hash_bits(None);
                }
            }
            let _reset = Reset;
            let bits = *rng.pick(&[0u32, 0, 1, 2, 3, 5, 8]);
            rsdd::verif::set_residual_hash_bits(Some(bits));
            rsdd::verif::take_component_hash_conflicts();
            // half of the cases also degrade the node store's hash (hook H6)
            let w = crate::caps::WeakHash::new(if rng.bool() { Some(crate::caps::weak_classes(rng, &ctx.profile.clone(), true)) } else { None }, None);
            // mostly CNFs that need branching (wide clauses, few units), so that the cache is
            // consulted with many different residual formulas
            let cl = if rng.chance(1, 4) { gen_cnf(rng, 9) } else { gen_branchy(rng) };
            let n = clauses_to_cnf(&cl).num_vars();
            let p = rng.perm(n);
            ctx.count("compilations_with_truncated_hash", 2);
            one(ctx, &cl, &p, false);
            one(ctx, &cl, &p, true);
            ctx.count("component_cache_hash_conflicts", rsdd::verif::take_component_hash_conflicts());
            ctx.count("unique_table_hash_clashes", w.clashes());
        });
    }
    // wide: the CNF's variables are spread over up to 200 labels (most indices unused)
    for case in ctx.cases("wide", 300, true) {
        ctx.run_case("wide", case, |ctx, rng| {
            let cl = gen_cnf(rng, 8);
            let n = clauses_num_vars(&cl);
            if n == 0 {
                return;
            }
            let _g = LabelMapGuard::new(random_label_map(n, rng));
            fit_label_map(n);
            ctx.count("compilations_over_spread_labels", 1);
            let p = rng.perm(n);
            one(ctx, &cl, &p, case % 2 == 0);
        });
    }
    // recorded witness of a residual-hash collision that made the component cache return the
    // diagram of CNF|x=T while compiling CNF|x=F (F12): pointwise check on the assignment where
    // the two differ, both node stores (2 308 variables: evaluated along one path, no truth table)
    for case in ctx.cases("hash_witness", 5, false) {
        ctx.run_case("hash_witness", case, |ctx, _rng| match case {
            0 | 1 => hash_witness(ctx, case % 2 == 1),
            2 | 3 => hash_witness3(ctx, case % 2 == 1),
            _ => {
                // F18: recorded collision of the 64-bit semantic hash (semantic node store)
                let cl: Clauses = crate::witness::witness5();
                let exp = clauses_tt(&cl, 7);
                let b = SemanticDecisionNNFBuilder::<{ primes::U64_LARGEST }>::new(VarOrder::linear_order(7));
                let got = BddWalker::new(7).tt(b.compile_cnf_topdown(&clauses_to_cnf(&cl)));
                ctx.count("witness_compilations", 1);
                ctx.case_eval(Some(crate::rng::mix(0xF18)));
                if got != exp {
                    ctx.violation("topdown.function.witness", "top-down result (semantic store) differs from the CNF (recorded collision of the 64-bit semantic hash)",
                        json!({"store": "semantic64", "witness": 5, "observed": got.hex(), "expected": exp.hex()}));
                }
            }
        });
    }
    // one builder, several CNFs over the same variables (relatives of each other: shared
    // clauses, so that residual formulas of different compilations look alike), the first one
    // compiled once more at the end
    for case in ctx.cases("reuse", 600, true) {
        ctx.run_case("reuse", case, |ctx, rng| {
            let base = gen_cnf(rng, 8);
            let nv = usize::max(1, clauses_num_vars(&base));
            let mut cls = vec![base.clone()];
            for _ in 0..rng.range(1, 3) {
                let mut c = if rng.chance(1, 3) { gen_cnf(rng, nv) } else { base.clone() };
                // drop / flip / add a clause
                for _ in 0..rng.range(1, 3) {
                    match rng.below(3) {
                        0 if !c.is_empty() => {
                            let i = rng.below(c.len());
                            c.remove(i);
                        }
                        1 if !c.is_empty() => {
                            let i = rng.below(c.len());
                            if !c[i].is_empty() {
                                let j = rng.below(c[i].len());
                                c[i][j].1 = !c[i][j].1;
                            }
                        }
                        _ => {
                            let w = rng.range(1, 3);
                            c.push((0..w).map(|_| (rng.below(nv), rng.bool())).collect());
                        }
                    }
                }
                cls.push(c);
            }
            cls.push(base);
            // C06 is about orders over the CNF's own variables: every CNF compiled by this builder
            // gets exactly the builder's variables (a clause on the last variable is added if needed)
            // (half of the builders also get CNFs over fewer variables than their order: since
            // F24 a builder compiles any CNF whose labels it knows)
            let pad = rng.bool();
            for c in cls.iter_mut() {
                if clauses_num_vars(c) < nv {
                    if pad {
                        c.push(vec![(nv - 1, rng.bool()), (rng.below(nv), rng.bool())]);
                    } else {
                        ctx.count("compilations_of_a_cnf_over_fewer_variables_than_the_builder", 1);
                    }
                }
            }
            let n = cls.iter().map(clauses_num_vars).max().unwrap();
            let p = rng.perm(n);
            many(ctx, &cls, &p, case % 2 == 0);
        });
    }
}

/// generator biased to unit clauses, implication chains, UNSAT discovered after
/// branching, and symmetric sub-formulas (component-cache hits)
fn gen_cnf(rng: &mut Rng, max_vars: usize) -> Clauses {
    let max_vars_k = rng.range(1, max_vars);
    let st = CnfStyle {
        max_vars: max_vars_k,
        max_clauses: if rng.chance(1, 6) { rng.range(1, 30) } else { rng.range(1, max_vars_k + 4) },
        max_width: rng.range(1, 4),
        allow_empty_clause: rng.chance(1, 10),
        allow_empty_cnf: true,
        allow_taut: rng.chance(1, 3),
        allow_dup: rng.chance(1, 3),
    };
    let mut cl = random_clauses(&st, rng);
    let n = clauses_num_vars(&cl);
    if n >= 4 && rng.chance(1, 4) {
        // symmetric halves: the same clause pattern on two disjoint variable blocks
        let h = n / 2;
        let extra: Clauses = cl
            .iter()
            .filter(|c| c.iter().all(|(v, _)| *v < h))
            .map(|c| c.iter().map(|(v, p)| (v + h, *p)).collect())
            .collect();
        cl.extend(extra);
    }
    if n >= 3 && rng.chance(1, 6) {
        // an unsatisfiable 2-variable core that unit propagation alone cannot refute,
        // next to units that are implied initially
        let a = rng.below(n);
        let b = (a + 1 + rng.below(n - 1)) % n;
        for (pa, pb) in [(true, true), (true, false), (false, true), (false, false)] {
            cl.push(vec![(a, pa), (b, pb)]);
        }
        let c = (0..n).find(|x| *x != a && *x != b).unwrap();
        cl.push(vec![(c, rng.bool())]);
    }
    if n >= 2 && rng.chance(1, 5) {
        // an implication chain x0 -> x1 -> ... plus a unit at one end
        for v in 0..(n - 1) {
            cl.push(vec![(v, false), (v + 1, true)]);
        }
        cl.push(vec![(if rng.bool() { 0 } else { n - 1 }, rng.bool())]);
    }
    cl
}

/// 5-10 variables, clauses of width 2-4, hardly any unit: compilation has to branch
fn gen_branchy(rng: &mut Rng) -> Clauses {
    let n = rng.range(5, 10);
    let m = rng.range(n, 2 * n + 2);
    let mut cl: Clauses = Vec::new();
    for _ in 0..m {
        let w = *rng.pick(&[2usize, 3, 3, 3, 4]);
        let mut vs = rng.perm(n);
        vs.truncate(w);
        cl.push(vs.into_iter().map(|v| (v, rng.bool())).collect());
    }
    if rng.chance(1, 3) {
        // the same pattern on the two halves: equal residuals under different decisions
        let h = n / 2;
        let extra: Clauses = cl.iter().filter(|c| c.iter().all(|(v, _)| *v < h)).map(|c| c.iter().map(|(v, p)| (v + h, *p)).collect()).collect();
        cl.extend(extra);
    }
    cl
}

fn one(ctx: &mut Ctx, cl: &Clauses, perm: &[usize], semantic: bool) {
    many(ctx, std::slice::from_ref(cl), perm, semantic);
}

/// all CNFs are compiled, one after the other, by ONE builder (a builder is reusable: what an
/// earlier compilation left in the node store or anywhere else must not change a later one)
fn many(ctx: &mut Ctx, cls: &[Clauses], perm: &[usize], semantic: bool) {
    // the order is over the CNFs' own variables; the oracle table over the generator's
    let n = cls.iter().map(clauses_num_vars).fold(perm.len(), usize::max);
    let order = match label_map() {
        None => VarOrder::new(&perm.iter().map(|x| VarLabel::new(*x as u64)).collect::<Vec<_>>()),
        Some(m) => {
            // wide: the decision order covers every label up to the largest one; the dense
            // variables keep the relative order `perm`, the unused labels are interleaved
            let top = m.iter().max().map(|x| x + 1).unwrap_or(1);
            let mut rest: Vec<usize> = (0..top).filter(|l| !m.contains(l)).collect();
            let mut h = crate::rng::hash_str(&format!("{:?}{:?}", m, perm));
            let mut full: Vec<usize> = Vec::new();
            let mut act: Vec<usize> = perm.iter().rev().map(|v| m[*v]).collect();
            while !act.is_empty() || !rest.is_empty() {
                h = crate::rng::mix(h);
                if !act.is_empty() && (rest.is_empty() || h % 8 == 0) {
                    full.push(act.pop().unwrap());
                } else {
                    full.push(rest.swap_remove((h >> 8) as usize % rest.len()));
                }
            }
            VarOrder::new(&full.iter().map(|x| VarLabel::new(*x as u64)).collect::<Vec<_>>())
        }
    };
    crate::caps::set_unique(Some(64));
    macro_rules! go {
        ($b:expr) => {{
            let b = $b;
            crate::caps::set_unique(None);
            let mut earlier: Vec<(BddPtr, Tt)> = Vec::new();
            for (i, cl) in cls.iter().enumerate() {
                let cnf = clauses_to_cnf(cl);
                let exp = clauses_tt(cl, n);
                let info = json!({"clauses": clauses_json(cl), "order": perm, "label_of_variable": label_map(), "store": if semantic { "semantic64" } else { "standard" },
                    "compiled_before_in_the_same_builder": cls[..i].iter().map(clauses_json).collect::<Vec<_>>()});
                if i > 0 {
                    ctx.count("compilations_in_a_used_builder", 1);
                }
                let r = check(ctx, &b, &cnf, n, &exp, &info);
                // results of earlier compilations keep denoting their CNF
                let mut w = BddWalker::new(usize::max(n, 1));
                for (j, (p, t)) in earlier.iter().enumerate() {
                    if w.tt(*p) != *t {
                        ctx.violation("topdown.drift", "the result of an earlier compilation changed its function after a later compilation in the same builder",
                            json!({"input": info, "earlier": j}));
                    }
                }
                earlier.push((r, if n == 0 { exp.widen(1) } else { exp }));
            }
            // literals made by the builder itself
            if n > 0 && !perm.is_empty() {
                let mut w = BddWalker::new(n);
                for v in perm.iter().take(3) {
                    for pol in [true, false] {
                        let l = TopDownBuilder::var(&b, lab(*v), pol);
                        ctx.count("builder_literals", 1);
                        if w.tt(l) != Tt::lit(n, *v, pol) {
                            ctx.violation("topdown.var", "TopDownBuilder::var does not denote the literal", json!({"var": v, "polarity": pol, "order": perm}));
                        }
                        let c = TopDownBuilder::condition(&b, l, lab(*v), true);
                        if w.tt(c) != Tt::konst(n, pol) {
                            ctx.violation("topdown.var", "a builder-made literal conditioned on its own variable is not the constant", json!({"var": v, "polarity": pol, "order": perm}));
                        }
                    }
                }
            }
        }};
    }
    if semantic {
        go!(SemanticDecisionNNFBuilder::<{ primes::U64_LARGEST }>::new(order))
    } else {
        go!(StandardDecisionNNFBuilder::new(order))
    }
}

fn hash_witness(ctx: &mut Ctx, semantic: bool) {
    use crate::witness::*;
    // the compiler recurses once per variable: give it a large stack
    let verdict = std::thread::Builder::new()
        .stack_size(768 << 20)
        .spawn(move || {
            let (raw, qr) = witness2();
            let cnf = rsdd::repr::Cnf::new(
                &raw.iter().map(|c| c.iter().map(|(v, p)| rsdd::repr::Literal::new(VarLabel::new(*v as u64), *p)).collect::<Vec<_>>()).collect::<Vec<_>>(),
            );
            let n = cnf.num_vars();
            // x = F, both other literals of one POS clause false, everything else true: that
            // clause is falsified, so the CNF is false on this assignment
            let c = POS[0];
            let mut a = vec![true; n];
            a[0] = false;
            a[qr[c].0] = false;
            a[qr[c].1] = false;
            let expected = raw.iter().all(|cl| cl.iter().any(|(v, p)| a[*v] == *p));
            fn eval(mut p: BddPtr, a: &[bool]) -> bool {
                let mut neg = false;
                loop {
                    match p {
                        BddPtr::PtrTrue => return !neg,
                        BddPtr::PtrFalse => return neg,
                        BddPtr::Reg(nd) => p = if a[nd.var.value_usize()] { nd.high } else { nd.low },
                        BddPtr::Compl(nd) => {
                            neg = !neg;
                            p = if a[nd.var.value_usize()] { nd.high } else { nd.low };
                        }
                    }
                }
            }
            let got = if semantic {
                let b = SemanticDecisionNNFBuilder::<{ primes::U64_LARGEST }>::new(VarOrder::linear_order(n));
                let r = b.compile_cnf_topdown(&cnf);
                eval(r, &a)
            } else {
                let b = StandardDecisionNNFBuilder::new(VarOrder::linear_order(n));
                let r = b.compile_cnf_topdown(&cnf);
                eval(r, &a)
            };
            (got, expected, n, raw.len())
        })
        .expect("HARNESS: cannot spawn the witness thread")
        .join();
    let (got, expected, n, m) = match verdict {
        Ok(v) => v,
        Err(_) => {
            ctx.violation("panic", "panic while compiling the recorded witness CNF", json!({"store": if semantic { "semantic64" } else { "standard" }}));
            return;
        }
    };
    ctx.count("witness_compilations", 1);
    ctx.case_eval(Some(crate::rng::mix(0xF12 ^ semantic as u64)));
    if got != expected {
        ctx.violation("topdown.function.witness", "top-down result differs from the CNF on an assignment (recorded residual-hash collision witness)",
            json!({"store": if semantic { "semantic64" } else { "standard" }, "variables": n, "clauses": m, "diagram_value": got, "cnf_value": expected}));
    }
}

/// F17: the constructed collision of the repaired 127-bit hash (witness 3: 2 176 clauses over
/// x0..x4); the whole truth table is compared
fn hash_witness3(ctx: &mut Ctx, semantic: bool) {
    let raw = crate::witness::witness3();
    let cl: Clauses = raw.clone();
    let cnf = clauses_to_cnf(&cl);
    let exp = clauses_tt(&cl, 5);
    let order = VarOrder::linear_order(5);
    let store = if semantic { "semantic64" } else { "standard" };
    let got = if semantic {
        let b = SemanticDecisionNNFBuilder::<{ primes::U64_LARGEST }>::new(order);
        let r = b.compile_cnf_topdown(&cnf);
        BddWalker::new(5).tt(r)
    } else {
        let b = StandardDecisionNNFBuilder::new(order);
        let r = b.compile_cnf_topdown(&cnf);
        BddWalker::new(5).tt(r)
    };
    ctx.count("witness_compilations", 1);
    ctx.case_eval(Some(crate::rng::mix(0xF17 ^ semantic as u64)));
    if got != exp {
        ctx.violation("topdown.function.witness", "top-down result differs from the CNF (recorded witness of a constructed collision of the 127-bit residual hash)",
            json!({"store": store, "witness": 3, "clauses": raw.len(), "observed": got.hex(), "expected": exp.hex()}));
    }
}

/// bitmask of variables decided at or below a node
fn vars_below(p: BddPtr, memo: &mut HashMap<usize, u64>, twice: &mut bool) -> u64 {
    match p {
        BddPtr::PtrTrue | BddPtr::PtrFalse => 0,
        BddPtr::Reg(nd) | BddPtr::Compl(nd) => {
            let k = nd as *const BddNode as usize;
            if let Some(m) = memo.get(&k) {
                return *m;
            }
            let below = vars_below(nd.low, memo, twice) | vars_below(nd.high, memo, twice);
            let bit = 1u64 << unlab(nd.var).min(63);
            if below & bit != 0 {
                *twice = true;
            }
            memo.insert(k, below | bit);
            below | bit
        }
    }
}

fn check<'a, B: DecisionNNFBuilder<'a>>(ctx: &mut Ctx, b: &'a B, cnf: &rsdd::repr::Cnf, n: usize, exp: &Tt, info: &Value) -> BddPtr<'a> {
    let r = b.compile_cnf_topdown(cnf);
    let mut w = BddWalker::new(usize::max(n, 1));
    let expw = if n == 0 { exp.widen(1) } else { exp.clone() };
    let got = w.tt(r);
    if w.foreign {
        ctx.violation("topdown.function", "top-down result tests a variable that does not occur in the CNF", json!({"input": info, "diagram": bdd_canon_string(r)}));
        return r;
    }
    ctx.count("compilations", 1);
    ctx.seen("kinds", if exp.is_false() { "unsat" } else if exp.is_true() { "valid" } else { "contingent" });
    ctx.case_eval(if expw.is_trivial() { None } else {
        Some(crate::rng::mix(expw.hash64() ^ crate::rng::hash_str(&info["order"].to_string()) ^ crate::rng::hash_str(&info["store"].to_string())))
    });
    if got != expw {
        ctx.violation("topdown.function", "top-down result denotes a wrong function",
            json!({"input": info, "observed": got.hex(), "expected": expw.hex(), "diagram": bdd_canon_string(r)}));
        return r;
    }
    if r.is_false() != exp.is_false() {
        ctx.violation("topdown.false_const", "false constant returned iff unsatisfiable is violated",
            json!({"input": info, "is_false": r.is_false(), "unsat": exp.is_false(), "diagram": bdd_canon_string(r)}));
    }
    let mut twice = false;
    vars_below(r, &mut HashMap::new(), &mut twice);
    if twice {
        ctx.violation("topdown.decomposable", "a path decides a variable twice",
            json!({"input": info, "diagram": bdd_canon_string(r)}));
    }
    ctx.maxc("nodes", bdd_nodes(r).len() as u64);
    // conditioning of the result and of its negation on every literal
    for v in 0..n {
        for val in [false, true] {
            for (p, t, which) in [(r, expw.clone(), "result"), (r.neg(), expw.not(), "negation")] {
                let c = TopDownBuilder::condition(b, p, lab(v), val);
                let ct = w.tt(c);
                ctx.count("conditionings", 1);
                let e = t.cofactor(v, val);
                if ct != e {
                    ctx.violation(&format!("topdown.condition.{}", which), "condition on a literal yields a wrong function",
                        json!({"input": info, "var": v, "value": val, "of": which, "observed": ct.hex(), "expected": e.hex(),
                            "diagram": bdd_canon_string(p)}));
                }
                if !p.is_scratch_cleared() {
                    ctx.violation("topdown.condition.scratch", "scratch left behind by condition", json!({"input": info}));
                }
            }
        }
    }
    if ctx.wants_sample() {
        ctx.sample(json!({"input": info, "function": expw.hex(), "diagram": bdd_canon_string(r)}));
    }
    r
}
