//! C09 -- unit propagation is sound, runs to fixpoint, and is exactly undone by pop.
use crate::ctx::Ctx;
use crate::gen::*;
use crate::rng::Rng;
use crate::tt::Tt;
use rsdd::repr::{DecisionResult, Literal, SATSolver, VarLabel};
use serde_json::{json, Value};
use std::collections::{BTreeSet, HashMap};

pub fn run(ctx: &mut Ctx) {
    for case in ctx.cases("rand", 1600, true) {
        ctx.run_case("rand", case, |ctx, rng| {
            let steps = rng.range(30, 150);
            solver_history(ctx, rng, 10, steps);
        });
    }
    // the same histories with the CNF's variables spread over up to 200 labels (most indices
    // unused): watch lists, models and variable sets span several machine words
    for case in ctx.cases("wide", 500, true) {
        ctx.run_case("wide", case, |ctx, rng| {
            let steps = rng.range(30, 150);
            let _g = LabelMapGuard::new(random_label_map(10, rng));
            ctx.count("solvers_over_spread_labels", 1);
            solver_history(ctx, rng, 10, steps);
        });
    }
    for case in ctx.cases("long", 48, true) {
        ctx.run_case("long", case, |ctx, rng| {
            let steps = rng.range(300, 600);
            solver_history(ctx, rng, 10, steps);
        });
    }
    // recorded collision witnesses of the residual hash (F12): two reachable states of one solver
    // with different residual formulas must not have the same hash
    for case in ctx.cases("hash_witness", 3, false) {
        ctx.run_case("hash_witness", case, |ctx, _rng| hash_witness(ctx, case));
    }
    // the single clause of the known F5 history, under every literal order
    for case in ctx.cases("regress", 8, false) {
        ctx.run_case("regress", case, |ctx, _rng| {
            let cl: Clauses = vec![vec![(0, false), (1, false), (2, true)]];
            let hist = vec![(0usize, true), (2usize, false)];
            fixed_history(ctx, &cl, &hist);
            let cl2: Clauses = vec![vec![(0, true), (1, true), (2, true)], vec![(0, false), (1, true), (2, false)]];
            for h in [vec![(0, false), (2, false)], vec![(2, true), (0, true)], vec![(1, false), (0, true)]] {
                fixed_history(ctx, &cl2, &h);
            }
        });
    }
}

fn hash_witness(ctx: &mut Ctx, case: u64) {
    use crate::witness::*;
    let lit = |v: usize, p: bool| Literal::new(VarLabel::new(v as u64), p);
    let (raw, sets): (RawCnf, Vec<Vec<(usize, bool)>>) = if case == 0 {
        (witness1(), vec![S.iter().map(|v| (*v, false)).collect(), T.iter().map(|v| (*v, false)).collect()])
    } else if case == 1 {
        (witness2().0, vec![vec![(0, true)], vec![(0, false)]])
    } else {
        // F17: a collision constructed against the repaired 127-bit hash
        (witness3(), vec![vec![(0, true)], vec![(0, false)]])
    };
    let cnf = rsdd::repr::Cnf::new(&raw.iter().map(|c| c.iter().map(|(v, p)| lit(*v, *p)).collect::<Vec<_>>()).collect::<Vec<_>>());
    let n = cnf.num_vars();
    let mut s = match SATSolver::new(cnf) {
        Some(s) => s,
        None => panic!("HARNESS: witness CNF reported unsatisfiable"),
    };
    let mut seen: Vec<(u128, Vec<Vec<(usize, bool)>>)> = Vec::new();
    let mut exact = Vec::new();
    for decisions in &sets {
        let mut model: Vec<Option<bool>> = vec![None; n];
        let mut pushed = 0;
        for (v, p) in decisions {
            match s.decide(lit(*v, *p)) {
                DecisionResult::UNSAT => panic!("HARNESS: witness decision reported UNSAT"),
                _ => pushed += 1,
            }
            for l in s.difference_iter() {
                model[l.label().value_usize()] = Some(l.polarity());
            }
        }
        seen.push((s.cur_hash(), residual(&raw, &model)));
        exact.push(s.cur_residual().clone());
        for _ in 0..pushed {
            s.pop();
        }
        ctx.count("witness_states", 1);
    }
    ctx.case_eval(Some(crate::rng::mix(0xF12 ^ case)));
    if seen[0].1 != seen[1].1 && seen[0].0 == seen[1].0 {
        ctx.violation("up.hash.witness", "two reachable states of one solver have different residual formulas and the same hash (recorded witness)",
            json!({"collision": {"hash": seen[0].0.to_string(), "witness": case + 1}, "variables": n, "clauses": raw.len(),
                "decisions_a": sets[0].len(), "decisions_b": sets[1].len()}));
    }
    // the exact residual (what a cache has to compare after F17) must tell the two states apart
    if seen[0].1 != seen[1].1 && exact[0] == exact[1] {
        ctx.violation("up.residual", "two reachable states with different residual formulas have equal cur_residual() (recorded witness)",
            json!({"witness": case + 1}));
    }
}

#[derive(Clone, PartialEq, Debug)]
struct Obs {
    is_set_ok: bool,
    model: Vec<Option<bool>>,
    is_sat: bool,
    hash: u128,
    diff: BTreeSet<(usize, bool)>,
    /// `cur_residual()`: the removed literal occurrences
    removed: Vec<usize>,
}

fn observe(s: &SATSolver, n: usize) -> Obs {
    let m = s.verif_model();
    let model: Vec<Option<bool>> = (0..n).map(|v| m.get(lab(v))).collect();
    // the public accessor must agree with the model
    let is_set_ok = (0..n).all(|v| s.is_set(lab(v)) == model[v].is_some());
    Obs {
        is_set_ok,
        model,
        is_sat: s.is_sat(),
        hash: s.cur_hash(),
        diff: s.difference_iter().map(|l| (unlab(l.label()), l.polarity())).collect(),
        removed: s.cur_residual().iter().collect(),
    }
}

/// normalised clauses as the property reads them: literal sets, tautologies dropped
fn norm_clauses(cl: &Clauses) -> Vec<BTreeSet<(usize, bool)>> {
    cl.iter()
        .map(|c| c.iter().cloned().collect::<BTreeSet<_>>())
        .filter(|c| !c.iter().any(|(v, p)| c.contains(&(*v, !*p))))
        .collect()
}

fn residual(nc: &[BTreeSet<(usize, bool)>], model: &[Option<bool>]) -> Vec<Vec<(usize, bool)>> {
    let mut r: Vec<Vec<(usize, bool)>> = Vec::new();
    for c in nc {
        if c.iter().any(|(v, p)| model[*v] == Some(*p)) {
            continue;
        }
        r.push(c.iter().filter(|(v, _)| model[*v].is_none()).cloned().collect());
    }
    r.sort();
    r
}

/// naive fixpoint propagation from the decisions; None on conflict
fn closure(cl: &Clauses, n: usize, decisions: &[(usize, bool)]) -> Option<Vec<Option<bool>>> {
    let mut m: Vec<Option<bool>> = vec![None; n];
    for (v, p) in decisions {
        if m[*v] == Some(!*p) {
            return None;
        }
        m[*v] = Some(*p);
    }
    loop {
        let mut changed = false;
        for c in cl {
            if c.iter().any(|(v, p)| m[*v] == Some(*p)) {
                continue;
            }
            let un: BTreeSet<(usize, bool)> = c.iter().filter(|(v, _)| m[*v].is_none()).cloned().collect();
            if un.is_empty() {
                return None;
            }
            if un.len() == 1 {
                let (v, p) = *un.iter().next().unwrap();
                m[v] = Some(p);
                changed = true;
            }
        }
        if !changed {
            return Some(m);
        }
    }
}

struct Mon<'a> {
    cl: &'a Clauses,
    n: usize,
    cnf_tt: Tt,
    nc: Vec<BTreeSet<(usize, bool)>>,
    hash_checkable: bool,
    hashes: HashMap<u128, Vec<Vec<(usize, bool)>>>,
    /// cur_residual() <-> residual formula as a family indexed by clause position
    by_removed: HashMap<Vec<usize>, Vec<Option<Vec<(usize, bool)>>>>,
    by_family: HashMap<Vec<Option<Vec<(usize, bool)>>>, Vec<usize>>,
    trace: Vec<Value>,
}

impl<'a> Mon<'a> {
    fn models_of(&self, decisions: &[(usize, bool)]) -> Tt {
        let mut t = self.cnf_tt.clone();
        for (v, p) in decisions {
            t = t.and(&Tt::lit(self.n, *v, *p));
        }
        t
    }
    /// all per-state checks; `decisions` are the literals on the solver's stack
    fn check_state(&mut self, ctx: &mut Ctx, o: &Obs, decisions: &[(usize, bool)], when: &str) {
        ctx.count("states_checked", 1);
        let info = |m: &Mon| json!({"clauses": clauses_json(m.cl), "trace": m.trace, "when": when, "label_of_variable": label_map()});
        let models = self.models_of(decisions);
        if !o.is_set_ok {
            ctx.violation("up.is_set", "is_set disagrees with the solver's current model", json!({"ctx": info(self)}));
            return;
        }
        // (1) soundness: every assigned value is entailed
        for v in 0..self.n {
            if let Some(b) = o.model[v] {
                if !models.and(&Tt::lit(self.n, v, !b)).is_false() {
                    ctx.violation("up.soundness", "an assigned value is not entailed by the CNF and the decisions",
                        json!({"var": v, "value": b, "ctx": info(self)}));
                    return;
                }
            }
        }
        // (3) no falsified clause, no unpropagated unit
        for (ci, c) in self.cl.iter().enumerate() {
            if c.iter().any(|(v, p)| o.model[*v] == Some(*p)) {
                continue;
            }
            let un: BTreeSet<(usize, bool)> = c.iter().filter(|(v, _)| o.model[*v].is_none()).cloned().collect();
            if un.is_empty() {
                ctx.violation("up.falsified_clause", "a clause is left falsified without UNSAT being reported",
                    json!({"clause": ci, "ctx": info(self)}));
                return;
            }
            if un.len() == 1 {
                ctx.violation("up.fixpoint", "a clause with one unassigned literal and no true literal was not propagated",
                    json!({"clause": ci, "unit": un.iter().next(), "model": format!("{:?}", o.model), "ctx": info(self)}));
                return;
            }
        }
        // closure <= model (same thing via the reference propagator)
        if let Some(cm) = closure(self.cl, self.n, decisions) {
            for v in 0..self.n {
                if cm[v].is_some() && o.model[v] != cm[v] {
                    ctx.violation("up.closure", "model differs from the reference propagator's closure",
                        json!({"var": v, "ctx": info(self)}));
                    return;
                }
            }
        }
        // (5) satisfied flag
        let all_sat = self.nc.iter().all(|c| c.iter().any(|(v, p)| o.model[*v] == Some(*p)));
        if all_sat != o.is_sat {
            ctx.violation("up.is_sat", "satisfied flag disagrees with 'every non-tautological clause has a true literal'",
                json!({"flag": o.is_sat, "expected": all_sat, "model": format!("{:?}", o.model), "ctx": info(self)}));
        }
        if o.is_sat {
            ctx.count("states_sat", 1);
        }
        // (7) cur_residual() identifies the residual formula exactly: within one solver, two states
        // have equal removed-occurrence sets iff their residual formulas (families indexed by
        // clause position: satisfied, or the list of unassigned literals) are equal.  This is what
        // the top-down compiler's component cache relies on after F17.
        {
            let fam: Vec<Option<Vec<(usize, bool)>>> = self
                .nc
                .iter()
                .map(|c| if c.iter().any(|(v, p)| o.model[*v] == Some(*p)) { None } else { Some(c.iter().filter(|(v, _)| o.model[*v].is_none()).cloned().collect()) })
                .collect();
            ctx.count("residual_checks", 1);
            match self.by_removed.get(&o.removed) {
                Some(prev) => {
                    ctx.count("residual_repeats", 1);
                    if *prev != fam {
                        ctx.violation("up.residual", "two states with equal cur_residual() have different residual formulas",
                            json!({"removed": o.removed, "first": format!("{:?}", prev), "second": format!("{:?}", fam), "ctx": info(self)}));
                    }
                }
                None => {
                    self.by_removed.insert(o.removed.clone(), fam.clone());
                }
            }
            match self.by_family.get(&fam) {
                Some(prev) => {
                    if *prev != o.removed {
                        ctx.violation("up.residual", "two states with the same residual formula have different cur_residual()",
                            json!({"first": prev, "second": o.removed, "residual": format!("{:?}", fam), "ctx": info(self)}));
                    }
                }
                None => {
                    self.by_family.insert(fam, o.removed.clone());
                }
            }
        }
        // (6) equal hash => identical residual formula
        if self.hash_checkable {
            let r = residual(&self.nc, &o.model);
            ctx.count("hash_checks", 1);
            match self.hashes.get(&o.hash) {
                Some(prev) => {
                    ctx.count("hash_repeats", 1);
                    if *prev != r {
                        ctx.violation("up.hash", "two states with equal hash have different residual formulas",
                            json!({"hash": o.hash.to_string(), "first": format!("{:?}", prev), "second": format!("{:?}", r), "ctx": info(self)}));
                    }
                }
                None => {
                    self.hashes.insert(o.hash, r);
                }
            }
        } else {
            ctx.count("hash_unchecked_large_product", 1);
        }
    }
}

fn prime_product_fits(nc: &[BTreeSet<(usize, bool)>]) -> bool {
    // the solver gives each literal occurrence of the normalised clauses the next prime
    let occ: usize = nc.iter().map(|c| c.len()).sum();
    let mut prod: u128 = 1;
    let mut p = 1u128;
    let mut found = 0;
    while found < occ {
        p += 1;
        if (2..p).take_while(|d| d * d <= p).all(|d| p % d != 0) {
            found += 1;
            prod = match prod.checked_mul(p) {
                Some(x) => x,
                None => return false,
            };
        }
    }
    true
}

fn gen_up_cnf(rng: &mut Rng, max_vars: usize) -> Clauses {
    if rng.chance(1, 6) {
        // the general-purpose generator: empty formula / empty clauses / many units
        let mv = rng.range(2, max_vars);
        let st = CnfStyle {
            max_vars: mv,
            max_clauses: rng.range(1, 20),
            max_width: rng.range(1, 5),
            allow_empty_clause: rng.chance(1, 10),
            allow_empty_cnf: rng.chance(1, 10),
            allow_taut: true,
            allow_dup: true,
        };
        return random_clauses(&st, rng);
    }
    // propagation-rich: mostly binary / ternary clauses, few units, implication chains
    let n = rng.range(3, max_vars);
    let m = rng.range(n, 3 * n);
    let mut cl: Clauses = Vec::new();
    for _ in 0..m {
        let w = *rng.pick(&[2usize, 2, 2, 3, 3, 3, 4, 5]);
        let w = if rng.chance(1, 25) { 1 } else { w };
        let mut c: Vec<(usize, bool)> = Vec::new();
        for _ in 0..w {
            c.push((rng.below(n), rng.bool()));
        }
        if rng.chance(1, 12) {
            let x = c[rng.below(c.len())];
            c.push(if rng.bool() { x } else { (x.0, !x.1) });
        }
        cl.push(c);
    }
    if rng.chance(1, 3) {
        let mut vs = rng.perm(n);
        vs.truncate(rng.range(2, n));
        for k in 0..(vs.len() - 1) {
            cl.push(vec![(vs[k], rng.bool()), (vs[k + 1], rng.bool())]);
        }
    }
    cl
}

fn solver_history(ctx: &mut Ctx, rng: &mut Rng, max_vars: usize, steps: usize) {
    let cl = gen_up_cnf(rng, max_vars);
    let n = clauses_num_vars(&cl);
    fit_label_map(n);
    let cnf = clauses_to_cnf(&cl);
    let cnf_tt = clauses_tt(&cl, usize::max(n, 1));
    let nn = usize::max(n, 1);
    let nc = norm_clauses(&cl);
    let mut mon = Mon {
        cl: &cl,
        n: nn,
        cnf_tt: cnf_tt.clone(),
        hash_checkable: prime_product_fits(&nc),
        nc,
        hashes: HashMap::new(),
        by_removed: HashMap::new(),
        by_family: HashMap::new(),
        trace: Vec::new(),
    };
    let has_empty = cl.iter().any(|c| c.is_empty());
    let v0 = ctx.violations;
    let solver = SATSolver::new(cnf);
    ctx.count("solvers", 1);
    let mut s = match solver {
        None => {
            ctx.count("initially_unsat", 1);
            // (2) None only if no model exists
            if !cnf_tt.is_false() {
                ctx.violation("up.new_none", "construction reports UNSAT for a satisfiable CNF",
                    json!({"clauses": clauses_json(&cl)}));
            }
            ctx.case_eval(None);
            return;
        }
        Some(s) => s,
    };
    let _ = has_empty;
    if n == 0 {
        ctx.case_eval(None);
        return;
    }
    let o0 = observe(&s, n);
    mon.check_state(ctx, &o0, &[], "after new");
    // stack of (decision, observation before the decision)
    let mut stack: Vec<((usize, bool), Obs)> = Vec::new();
    let mut cur = o0;
    let mut nontrivial = false;
    for _ in 0..steps {
        let all_assigned = cur.model.iter().all(|x| x.is_some());
        let do_pop = !stack.is_empty() && (rng.chance(3, 10) || (all_assigned && rng.chance(3, 4)));
        if do_pop {
            // sometimes unwind several levels at once
            let k = if rng.chance(1, 5) { rng.range(1, stack.len()) } else { 1 };
            for _ in 0..k {
                let (_, before) = stack.pop().unwrap();
                s.pop();
                mon.trace.push(json!("pop"));
                ctx.count("pops", 1);
                let now = observe(&s, n);
                // (4) pop restores exactly the state before the matching decide
                if now != before {
                    ctx.violation("up.pop_restore", "state after pop differs from the state before the matching decide",
                        json!({"before": format!("{:?}", before), "after": format!("{:?}", now),
                            "clauses": clauses_json(&cl), "trace": mon.trace}));
                    return;
                }
                cur = now;
            }
            continue;
        }
        // decide: prefer unassigned variables, but also re-decide assigned ones and
        // decide against implied values
        let v = if rng.chance(3, 4) {
            let un: Vec<usize> = (0..n).filter(|v| cur.model[*v].is_none()).collect();
            if un.is_empty() { rng.below(n) } else { *rng.pick(&un) }
        } else {
            rng.below(n)
        };
        let p = rng.bool();
        mon.trace.push(json!([v, p]));
        if mon.trace.len() > 400 {
            mon.trace.drain(0..200);
        }
        let mut decisions: Vec<(usize, bool)> = stack.iter().map(|(d, _)| *d).collect();
        decisions.push((v, p));
        let res = s.decide(Literal::new(lab(v), p));
        ctx.count("decides", 1);
        match res {
            DecisionResult::UNSAT => {
                ctx.count("decide_unsat", 1);
                // (2) UNSAT only if no model extends the decisions
                if !mon.models_of(&decisions).is_false() {
                    ctx.violation("up.unsat", "UNSAT reported although a model extends the decisions",
                        json!({"decision": [v, p], "clauses": clauses_json(&cl), "trace": mon.trace}));
                    return;
                }
                // nothing was pushed: the observable state is unchanged
                let now = observe(&s, n);
                if now != cur {
                    ctx.violation("up.unsat_state", "a refused decision changed the solver state",
                        json!({"clauses": clauses_json(&cl), "trace": mon.trace}));
                    return;
                }
            }
            DecisionResult::SAT | DecisionResult::Unknown => {
                let now = observe(&s, n);
                if matches!(res, DecisionResult::SAT) != now.is_sat {
                    ctx.violation("up.decide_result", "decide() result SAT/Unknown disagrees with is_sat()",
                        json!({"clauses": clauses_json(&cl), "trace": mon.trace}));
                }
                // difference_iter = newly assigned literals of this decision
                let mut exp_diff: BTreeSet<(usize, bool)> = BTreeSet::new();
                for x in 0..n {
                    if cur.model[x].is_none() {
                        if let Some(b) = now.model[x] {
                            exp_diff.insert((x, b));
                        }
                    } else if now.model[x] != cur.model[x] {
                        ctx.violation("up.monotone", "a decision changed an already assigned variable",
                            json!({"var": x, "clauses": clauses_json(&cl), "trace": mon.trace}));
                    }
                }
                if exp_diff != now.diff {
                    ctx.violation("up.difference_iter", "difference_iter is not the set of newly assigned literals",
                        json!({"expected": format!("{:?}", exp_diff), "got": format!("{:?}", now.diff),
                            "clauses": clauses_json(&cl), "trace": mon.trace}));
                }
                if exp_diff.len() > 1 {
                    nontrivial = true;
                    ctx.count("decides_with_propagation", 1);
                }
                mon.check_state(ctx, &now, &decisions, "after decide");
                stack.push(((v, p), cur.clone()));
                cur = now;
                ctx.maxc("depth", stack.len() as u64);
            }
        }
        if ctx.violations > v0 {
            return;
        }
    }
    let key = crate::rng::mix(cnf_tt.hash64() ^ crate::rng::hash_str(&clauses_json(&cl).to_string()));
    ctx.case_eval(if nontrivial { Some(key) } else { None });
    if ctx.wants_sample() {
        ctx.sample(json!({"clauses": clauses_json(&cl), "trace_tail": mon.trace.iter().rev().take(12).collect::<Vec<_>>(),
            "hash_checked": mon.hash_checkable}));
    }
}

fn fixed_history(ctx: &mut Ctx, cl: &Clauses, hist: &[(usize, bool)]) {
    let n = clauses_num_vars(cl);
    let nc = norm_clauses(cl);
    let mut mon = Mon {
        cl,
        n,
        cnf_tt: clauses_tt(cl, n),
        hash_checkable: prime_product_fits(&nc),
        nc,
        hashes: HashMap::new(),
        by_removed: HashMap::new(),
        by_family: HashMap::new(),
        trace: Vec::new(),
    };
    let mut s = match SATSolver::new(clauses_to_cnf(cl)) {
        Some(s) => s,
        None => return,
    };
    let mut decisions = Vec::new();
    for (v, p) in hist {
        mon.trace.push(json!([v, p]));
        decisions.push((*v, *p));
        match s.decide(Literal::new(lab(*v), *p)) {
            DecisionResult::UNSAT => return,
            _ => {
                let o = observe(&s, n);
                mon.check_state(ctx, &o, &decisions, "fixed history");
            }
        }
    }
    ctx.count("fixed_histories", 1);
}
