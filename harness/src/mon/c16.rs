//! C16 -- operation caches are transparent.
use crate::bddhist::*;
use crate::ctx::Ctx;
use crate::rng::Rng;
use crate::sddhist::*;
use rsdd::util::lru::Lru;
use serde_json::json;
use std::collections::HashMap;

pub fn run(ctx: &mut Ctx) {
    for case in ctx.cases("lru", 1200, true) {
        ctx.run_case("lru", case, lru_model);
    }
    for case in ctx.cases("paired", 900, true) {
        ctx.run_case("paired", case, paired_builders);
    }
    for case in ctx.cases("paired_long", 10, true) {
        ctx.run_case("paired_long", case, |ctx, rng| {
            let mut cfg = random_cfg(rng, 9, true);
            cfg.nops = rng.range(500, 1200);
            paired(ctx, rng, cfg);
        });
    }
    for case in ctx.cases("sdd_cold_warm", 500, true) {
        ctx.run_case("sdd_cold_warm", case, |ctx, rng| {
            let mut cfg = random_sdd_cfg(rng, 5, true);
            cfg.nops = rng.range(10, 50);
            let ops = gen_sdd_history(cfg.n, cfg.nops, rng);
            let checks = SddChecks {
                function: false,
                wellformed: false,
                record_canon: false,
                cold_replay_every: 3,
            };
            run_sdd_history(ctx, &cfg, &ops, &checks);
            ctx.case_eval(Some(crate::rng::mix(rng.next())));
        });
    }
}

/// the lossy cache against a map model with permitted forgetting
fn lru_model(ctx: &mut Ctx, rng: &mut Rng) {
    let bits = rng.below(7);
    let _ = rsdd::verif::take_counters();
    let mut lru: Lru<(u32, u32, u32), u64> = Lru::new(bits);
    let nkeys = rng.range(2, 200);
    let style = rng.below(4);
    let salt = rng.next();
    let hash_of = |k: u32| -> u64 {
        match style {
            0 => crate::rng::mix(k as u64 ^ salt),
            1 => (k % 5) as u64,                       // heavy collisions
            2 => ((k as u64) << 1) | (salt & 1),       // same low bits before growth, apart after
            _ => (k as u64 % 3) << (salt % 7),         // collide at every capacity up to a point
        }
    };
    let mut model: HashMap<u32, u64> = HashMap::new();
    let nops = rng.range(50, 2500);
    let mut hist: Vec<serde_json::Value> = Vec::new();
    let mut hits = 0u64;
    for step in 0..nops {
        let k = rng.below(nkeys) as u32;
        let key = (k, k.wrapping_mul(7), k ^ 0x55);
        let h = hash_of(k);
        if rng.chance(1, 2) {
            // values change on every insert, so a stale copy is distinguishable
            let v = (step as u64) << 8 | rng.below(256) as u64;
            lru.insert(key, v, h);
            model.insert(k, v);
            hist.push(json!(["ins", k, v]));
            ctx.count("lru_inserts", 1);
        } else {
            let got = lru.get(key, h);
            hist.push(json!(["get", k]));
            ctx.count("lru_gets", 1);
            match (got, model.get(&k)) {
                (None, _) => {}
                (Some(v), Some(m)) if v == *m => {
                    hits += 1;
                }
                (Some(v), m) => {
                    let tail: Vec<_> = hist.iter().rev().take(40).cloned().collect();
                    ctx.violation("lru.get", "get returned a value that is not the most recent one inserted under that key",
                        json!({"key": k, "got": v, "most_recent": m, "initial_bits": bits, "hash_style": style, "step": step, "history_tail_reversed": tail}));
                    return;
                }
            }
        }
        if hist.len() > 400 {
            hist.drain(0..200);
        }
    }
    let (_, grows, conflicts) = rsdd::verif::take_counters();
    ctx.count("lru_hits", hits);
    ctx.count("lru_grows", grows);
    ctx.count("lru_overwrites", conflicts);
    if grows > 0 {
        ctx.count("lru_histories_with_growth", 1);
    }
    ctx.case_eval(Some(crate::rng::mix(salt ^ (nkeys as u64) << 3 ^ bits as u64)));
    if ctx.wants_sample() {
        ctx.sample(json!({"regime": "lru", "initial_bits": bits, "hash_style": style, "ops": nops, "grows": grows, "overwrites": conflicts,
            "history_head": hist.iter().take(12).collect::<Vec<_>>()}));
    }
}

fn paired_builders(ctx: &mut Ctx, rng: &mut Rng) {
    let mut cfg = random_cfg(rng, 6, true);
    cfg.nops = rng.range(10, 90);
    paired(ctx, rng, cfg);
}

/// the same history on a cache-everything builder and on a lossy-cache builder at a
/// tiny capacity: every result must be the same canonical diagram
fn paired(ctx: &mut Ctx, rng: &mut Rng, cfg: HistCfg) {
    let ops = gen_history(&cfg, rng);
    let checks = Checks {
        record_canon: true,
        ..Default::default()
    };
    let mut a = cfg.clone();
    a.cache = CacheKind::All;
    let mut l = cfg.clone();
    l.cache = CacheKind::Lru;
    l.lru_bits = Some(rng.below(5));
    let ra = run_history(ctx, &a, &ops, &checks);
    let rl = run_history(ctx, &l, &ops, &checks);
    ctx.count("paired_histories", 1);
    if rl.lru_conflicts > 0 {
        ctx.count("paired_histories_with_overwrites", 1);
    }
    if rl.lru_grows > 0 {
        ctx.count("paired_histories_with_cache_growth", 1);
    }
    for (i, (x, y)) in ra.canon.iter().zip(rl.canon.iter()).enumerate() {
        ctx.count("paired_results", 1);
        if x != y {
            ctx.violation("cache.bdd.paired", "lossy-cache builder and cache-everything builder return different diagrams",
                json!({"step": i, "op": ops[i].to_json(), "all": x, "lru": y, "cfg_lru": l.to_json(),
                    "history": ops[..=i].iter().map(|o| o.to_json()).collect::<Vec<_>>()}));
            break;
        }
    }
    ctx.case_eval(Some(crate::rng::mix(rng.next())));
}
