//! C16 -- operation caches are transparent.
use crate::bddhist::*;
use crate::ctx::Ctx;
use crate::rng::Rng;
use crate::sddhist::*;
use rsdd::util::lru::Lru;
use serde_json::json;
use std::collections::HashMap;

pub fn run(ctx: &mut Ctx) {
    for case in ctx.cases("lru", 1200, true) {
        ctx.run_case("lru", case, lru_model);
    }
    // the lossy cache at the size the library really uses (2^16 slots): enough inserts that it
    // grows more than once
    for case in ctx.cases("lru_default_size", 2, false) {
        ctx.run_case("lru_default_size", case, |ctx, rng| lru_model_at(ctx, rng, 16, 300_000, 600_000));
    }
    for case in ctx.cases("ite_table", 600, true) {
        ctx.run_case("ite_table", case, ite_table_model);
    }
    for case in ctx.cases("paired", 900, true) {
        ctx.run_case("paired", case, paired_builders);
    }
    // the same pairs while the hash of every standardised triple falls into 1-17 classes (hook
    // H7): the lossy cache holds entries of different triples under one hash all the time
    for case in ctx.cases("paired_weak_hash", 400, true) {
        ctx.run_case("paired_weak_hash", case, |ctx, rng| {
            let _w = crate::caps::WeakHash::new(None, Some(*rng.pick(&[1u64, 2, 3, 5, 17])));
            ctx.count("paired_histories_with_weak_triple_hashes", 1);
            paired_builders(ctx, rng);
        });
    }
    for case in ctx.cases("paired_long", 10, true) {
        ctx.run_case("paired_long", case, |ctx, rng| {
            let mut cfg = random_cfg(rng, 9, true);
            cfg.nops = rng.range(500, 1200);
            paired(ctx, rng, cfg);
        });
    }
    for case in ctx.cases("sdd_cold_warm", 500, true) {
        ctx.run_case("sdd_cold_warm", case, |ctx, rng| {
            let mut cfg = random_sdd_cfg(rng, 5, true);
            cfg.nops = rng.range(10, 50);
            let ops = gen_sdd_history(cfg.n, cfg.nops, rng);
            let checks = SddChecks {
                function: false,
                wellformed: false,
                record_canon: false,
                cold_replay_every: 3,
            };
            run_sdd_history(ctx, &cfg, &ops, &checks);
            ctx.case_eval(Some(crate::rng::mix(rng.next())));
        });
    }
}

/// the lossy cache against a map model with permitted forgetting
fn lru_model(ctx: &mut Ctx, rng: &mut Rng) {
    let bits = rng.below(7);
    let nkeys = rng.range(2, 200);
    let nops = rng.range(50, 2500);
    lru_model_at(ctx, rng, bits, nkeys, nops);
}

fn lru_model_at(ctx: &mut Ctx, rng: &mut Rng, bits: usize, nkeys: usize, nops: usize) {
    let _ = rsdd::verif::take_counters();
    let mut lru: Lru<(u32, u32, u32), u64> = Lru::new(bits);
    if bits >= 16 {
        ctx.count("lru_default_size_histories", 1);
    }
    // (at the default size only the spreading styles: the point is to fill and grow the table)
    let style = if bits >= 16 { 4 * rng.below(2) } else { rng.below(4) };
    let salt = rng.next();
    let hash_of = |k: u32| -> u64 {
        match style {
            0 => crate::rng::mix(k as u64 ^ salt),
            1 => (k % 5) as u64,                       // heavy collisions
            2 => ((k as u64) << 1) | (salt & 1),       // same low bits before growth, apart after
            4 => k as u64,                             // dense: consecutive slots
            _ => (k as u64 % 3) << (salt % 7),         // collide at every capacity up to a point
        }
    };
    let mut model: HashMap<u32, u64> = HashMap::new();
    let mut hist: Vec<serde_json::Value> = Vec::new();
    let mut hits = 0u64;
    for step in 0..nops {
        let k = rng.below(nkeys) as u32;
        let key = (k, k.wrapping_mul(7), k ^ 0x55);
        let h = hash_of(k);
        if rng.chance(1, 2) {
            // values change on every insert, so a stale copy is distinguishable
            let v = (step as u64) << 8 | rng.below(256) as u64;
            lru.insert(key, v, h);
            model.insert(k, v);
            hist.push(json!(["ins", k, v]));
            ctx.count("lru_inserts", 1);
        } else {
            let got = lru.get(key, h);
            hist.push(json!(["get", k]));
            ctx.count("lru_gets", 1);
            match (got, model.get(&k)) {
                (None, _) => {}
                (Some(v), Some(m)) if v == *m => {
                    hits += 1;
                }
                (Some(v), m) => {
                    let tail: Vec<_> = hist.iter().rev().take(40).cloned().collect();
                    ctx.violation("lru.get", "get returned a value that is not the most recent one inserted under that key",
                        json!({"key": k, "got": v, "most_recent": m, "initial_bits": bits, "hash_style": style, "step": step, "history_tail_reversed": tail}));
                    return;
                }
            }
        }
        if hist.len() > 400 {
            hist.drain(0..200);
        }
    }
    let (_, grows, conflicts) = rsdd::verif::take_counters();
    ctx.count("lru_hits", hits);
    if bits >= 16 {
        ctx.count("lru_default_size_grows", grows);
    }
    ctx.count("lru_grows", grows);
    ctx.count("lru_overwrites", conflicts);
    if grows > 0 {
        ctx.count("lru_histories_with_growth", 1);
    }
    ctx.case_eval(Some(crate::rng::mix(salt ^ (nkeys as u64) << 3 ^ bits as u64)));
    if ctx.wants_sample() {
        ctx.sample(json!({"regime": "lru", "initial_bits": bits, "hash_style": style, "ops": nops, "grows": grows, "overwrites": conflicts,
            "history_head": hist.iter().take(12).collect::<Vec<_>>()}));
    }
}

/// the two ITE-cache adapters driven directly through the public `IteTable` trait with
/// caller-supplied (colliding) hashes: what `get` returns for a standardised triple must be
/// the value most recently inserted for exactly that triple (complement flag re-applied),
/// never a value stored for another triple
fn ite_table_model(ctx: &mut Ctx, rng: &mut Rng) {
    use rsdd::builder::bdd::RobddBuilder;
    use rsdd::builder::cache::{AllIteTable, Ite, IteTable, LruIteTable};
    use rsdd::builder::BottomUpBuilder;
    use rsdd::repr::{BddPtr, DDNNFPtr, VarLabel, VarOrder};
    crate::caps::set_unique(Some(64));
    let b: RobddBuilder<AllIteTable<BddPtr>> = RobddBuilder::new(VarOrder::linear_order(4));
    crate::caps::set_unique(None);
    let b = &b;
    let mut pool: Vec<BddPtr> = vec![BddPtr::PtrTrue, BddPtr::PtrFalse];
    for v in 0..4u64 {
        pool.push(b.var(VarLabel::new(v), true));
        pool.push(b.var(VarLabel::new(v), false));
    }
    for _ in 0..rng.range(2, 10) {
        let (x, y) = (pool[rng.below(pool.len())], pool[rng.below(pool.len())]);
        pool.push(if rng.bool() { b.and(x, y) } else { b.or(x, y) });
    }
    let bits = rng.below(5);
    crate::caps::set_lru_bits(Some(bits));
    let _ = rsdd::verif::take_counters();
    let mut lru: LruIteTable<BddPtr> = Default::default();
    crate::caps::set_lru_bits(None);
    let mut all: AllIteTable<BddPtr> = Default::default();
    // a small universe of triples, each bound to one hash for the whole history
    let ntr = rng.range(2, 60);
    // (distinct triples: a key is bound to ONE hash, as it is for every real user of the cache)
    let mut triples: Vec<(BddPtr, BddPtr, BddPtr)> = Vec::new();
    for _ in 0..ntr {
        let t = (pool[rng.below(pool.len())], pool[rng.below(pool.len())], pool[rng.below(pool.len())]);
        if !triples.contains(&t) {
            triples.push(t);
        }
    }
    let ntr = triples.len();
    let style = rng.below(4);
    let salt = rng.next();
    let mut model: HashMap<(BddPtr, BddPtr, BddPtr), BddPtr> = HashMap::new();
    let nops = rng.range(30, 800);
    let mut hits = 0u64;
    for step in 0..nops {
        let k = rng.below(ntr);
        let (f, g, h) = triples[k];
        let compl = rng.bool();
        let ite = if rng.chance(1, 12) {
            Ite::IteConst(f)
        } else if compl {
            Ite::IteComplChoice { f, g, h }
        } else {
            Ite::IteChoice { f, g, h }
        };
        let hash = match style {
            0 => IteTable::hash(&lru, &ite), // the adapter's own hash
            1 => (k % 3) as u64,
            2 => crate::rng::mix(k as u64 ^ salt),
            _ => ((k as u64) << 1) | (salt & 1),
        };
        let is_const = matches!(ite, Ite::IteConst(_));
        if rng.chance(1, 2) {
            let v = pool[rng.below(pool.len())];
            lru.insert(ite, v, hash);
            all.insert(ite, v, hash);
            if !is_const {
                model.insert((f, g, h), if compl { v.neg() } else { v });
            }
            ctx.count("ite_table_inserts", 1);
        } else {
            ctx.count("ite_table_gets", 1);
            let want = if is_const { Some(f) } else { model.get(&(f, g, h)).map(|v| if compl { v.neg() } else { *v }) };
            let got_all = all.get(ite, hash);
            if got_all != want {
                ctx.violation("cache.ite_table.all", "AllIteTable::get is not the value most recently inserted for that standard triple",
                    json!({"step": step, "triple": k, "complemented_choice": compl, "const": is_const}));
                return;
            }
            match lru.get(ite, hash) {
                None if !is_const => {}
                got if got == want => hits += 1,
                got => {
                    ctx.violation("cache.ite_table.lru", "LruIteTable::get returned a value that was not the most recent one inserted for exactly that standard triple",
                        json!({"step": step, "triple": k, "complemented_choice": compl, "const": is_const, "hash": hash.to_string(),
                            "hash_style": style, "initial_bits": bits, "got_is_some": got.is_some(), "expected_is_some": want.is_some()}));
                    return;
                }
            }
        }
    }
    let (_, grows, conflicts) = rsdd::verif::take_counters();
    ctx.count("ite_table_lru_hits", hits);
    ctx.count("ite_table_lru_grows", grows);
    ctx.count("ite_table_lru_overwrites", conflicts);
    ctx.case_eval(Some(crate::rng::mix(salt ^ (ntr as u64) << 5 ^ bits as u64)));
}

fn paired_builders(ctx: &mut Ctx, rng: &mut Rng) {
    let mut cfg = random_cfg(rng, 6, true);
    cfg.nops = rng.range(10, 90);
    paired(ctx, rng, cfg);
}

/// the same history on a cache-everything builder and on a lossy-cache builder at a
/// tiny capacity: every result must be the same canonical diagram
fn paired(ctx: &mut Ctx, rng: &mut Rng, cfg: HistCfg) {
    let ops = gen_history(&cfg, rng);
    let checks = Checks {
        record_canon: true,
        ..Default::default()
    };
    let mut a = cfg.clone();
    a.cache = CacheKind::All;
    let mut l = cfg.clone();
    l.cache = CacheKind::Lru;
    l.lru_bits = Some(rng.below(5));
    let ra = run_history(ctx, &a, &ops, &checks);
    let rl = run_history(ctx, &l, &ops, &checks);
    ctx.count("paired_histories", 1);
    if rl.lru_conflicts > 0 {
        ctx.count("paired_histories_with_overwrites", 1);
    }
    if rl.lru_grows > 0 {
        ctx.count("paired_histories_with_cache_growth", 1);
    }
    for (i, (x, y)) in ra.canon.iter().zip(rl.canon.iter()).enumerate() {
        ctx.count("paired_results", 1);
        if x != y {
            ctx.violation("cache.bdd.paired", "lossy-cache builder and cache-everything builder return different diagrams",
                json!({"step": i, "op": ops[i].to_json(), "all": x, "lru": y, "cfg_lru": l.to_json(),
                    "history": ops[..=i].iter().map(|o| o.to_json()).collect::<Vec<_>>()}));
            break;
        }
    }
    ctx.case_eval(Some(crate::rng::mix(rng.next())));
}
