//! C18 -- the C ABI is a faithful wrapper of the Rust operations.
//! The exported `#[no_mangle] extern "C"` symbols of rsdd (feature `ffi`) are linked
//! from the rlib and called exactly as a C client would; every call is mirrored on a
//! native builder and additionally compared with the truth-table oracle.
#![allow(improper_ctypes)]
use crate::bddhist::*;
use crate::ctx::Ctx;
use crate::exact::Dy;
use crate::gen::*;
use crate::rng::Rng;
use crate::semi::*;
use crate::tt::Tt;
use crate::walk::{bdd_canon_string, sdd_canon_string, BddWalker, SddWalker};
use rsdd::builder::bdd::RobddBuilder;
use rsdd::builder::cache::AllIteTable;
use rsdd::builder::decision_nnf::{DecisionNNFBuilder, StandardDecisionNNFBuilder};
use rsdd::builder::sdd::CompressionSddBuilder;
use rsdd::builder::BottomUpBuilder;
use rsdd::repr::{BddPtr, Cnf, DDNNFPtr, DTree, Literal, SddPtr, VTree, VarLabel, VarOrder, WmcParams};
use rsdd::serialize::BDDSerializer;
use rsdd::util::semirings::{Complex, Polynomial, RealSemiring, MAX_COEFFS};
use serde_json::{json, Value};
use std::collections::HashMap;
use std::ffi::{c_char, c_void, CStr, CString};

type Bdd = BddPtr<'static>;
type Poly = Polynomial<RealSemiring>;

#[repr(C)]
#[derive(Clone, Copy)]
struct WeightF64(f64, f64);
#[repr(C)]
#[derive(Clone, Copy)]
struct WeightComplex(Complex, Complex);
#[repr(C)]
struct WeightPoly {
    low: *mut Poly,
    high: *mut Poly,
}
#[repr(C)]
struct Clause {
    vars: *mut Literal,
    len: usize,
}

extern "C" {
    fn var_order_linear(num_vars: usize) -> *const VarOrder;
    fn cnf_from_dimacs(s: *const c_char) -> *const Cnf;
    fn robdd_builder_all_table(order: *mut VarOrder) -> *mut c_void;
    fn robdd_builder_compile_cnf(b: *mut c_void, cnf: *mut Cnf) -> *mut Bdd;
    fn robdd_model_count(b: *mut c_void, bdd: *mut Bdd) -> u64;
    fn mk_bdd_manager_default_order(num_vars: u64) -> *mut c_void;
    fn bdd_new_label(b: *mut c_void) -> u64;
    fn bdd_var(b: *mut c_void, label: u64, polarity: bool) -> *mut Bdd;
    fn bdd_new_var(b: *mut c_void, polarity: bool) -> *mut Bdd;
    fn bdd_ite(b: *mut c_void, f: *mut Bdd, g: *mut Bdd, h: *mut Bdd) -> *mut Bdd;
    fn bdd_and(b: *mut c_void, l: *mut Bdd, r: *mut Bdd) -> *mut Bdd;
    fn bdd_or(b: *mut c_void, l: *mut Bdd, r: *mut Bdd) -> *mut Bdd;
    fn bdd_negate(b: *mut c_void, f: *mut Bdd) -> *mut Bdd;
    fn bdd_compose(b: *mut c_void, f: *mut Bdd, l: VarLabel, g: *mut Bdd) -> *mut Bdd;
    fn bdd_is_true(f: *mut Bdd) -> bool;
    fn bdd_is_false(f: *mut Bdd) -> bool;
    fn bdd_is_const(f: *mut Bdd) -> bool;
    fn bdd_count_nodes(f: *mut Bdd) -> usize;
    fn bdd_scratch(f: *mut Bdd, default: usize) -> usize;
    fn bdd_set_scratch(f: *mut Bdd, v: usize);
    fn bdd_clear_scratch(f: *mut Bdd);
    fn bdd_true(b: *mut c_void) -> *mut Bdd;
    fn bdd_false(b: *mut c_void) -> *mut Bdd;
    fn bdd_eq(b: *mut c_void, l: *mut Bdd, r: *mut Bdd) -> bool;
    fn free_bdd_manager(b: *mut c_void);
    fn bdd_topvar(f: *mut Bdd) -> u64;
    fn bdd_low(f: *mut Bdd) -> *mut Bdd;
    fn bdd_high(f: *mut Bdd) -> *mut Bdd;
    fn print_bdd(f: *mut Bdd) -> *const c_char;
    fn bdd_num_recursive_calls(b: *mut c_void) -> usize;
    fn bdd_to_json(f: *mut Bdd) -> *const c_char;
    fn bdd_wmc(f: *mut Bdd, w: *mut WmcParams<RealSemiring>) -> f64;
    fn bdd_wmc_complex(f: *mut Bdd, w: *mut WmcParams<Complex>) -> Complex;
    fn new_wmc_params_f64() -> *mut WmcParams<RealSemiring>;
    fn free_wmc_params_f64(w: *mut WmcParams<RealSemiring>);
    fn new_wmc_params_complex() -> *mut WmcParams<Complex>;
    fn free_wmc_params_complex(w: *mut WmcParams<Complex>);
    fn wmc_param_f64_set_weight(w: *mut WmcParams<RealSemiring>, var: u64, low: f64, high: f64);
    fn wmc_param_complex_set_weight(w: *mut WmcParams<Complex>, var: u64, low: Complex, high: Complex);
    fn wmc_param_f64_var_weight(w: *mut WmcParams<RealSemiring>, var: u64) -> WeightF64;
    fn weight_f64_lo(w: WeightF64) -> f64;
    fn weight_f64_hi(w: WeightF64) -> f64;
    fn wmc_param_complex_var_weight(w: *mut WmcParams<Complex>, var: u64) -> WeightComplex;
    fn weight_complex_lo(w: WeightComplex) -> Complex;
    fn weight_complex_hi(w: WeightComplex) -> Complex;
    fn new_polynomial(coeffs: *const f64, len: usize) -> *mut Poly;
    fn destroy_polynomial(p: *mut Poly);
    fn new_wmc_params_poly() -> *mut WmcParams<Poly>;
    fn destroy_wmc_params_poly(w: *mut WmcParams<Poly>);
    fn wmc_param_poly_set_weight(w: *mut WmcParams<Poly>, var: u64, lc: *const f64, ll: usize, hc: *const f64, hl: usize);
    fn wmc_param_poly_var_weight(w: *mut WmcParams<Poly>, var: u64) -> WeightPoly;
    fn polynomial_len(p: *mut Poly) -> usize;
    fn polynomial_get_coeffs(p: *mut Poly, buf: *mut f64, max_len: usize) -> usize;
    fn bdd_wmc_poly(f: *mut Bdd, w: *mut WmcParams<Poly>) -> *mut Poly;
    fn cnf_new(clauses: *const Clause, len: usize) -> *mut Cnf;
    fn cnf_min_fill_order(cnf: *mut Cnf) -> *mut VarOrder;
    fn ddnnf_builder_new(order: *mut VarOrder) -> *mut c_void;
    fn ddnnf_builder_compile_cnf_topdown(b: *const c_void, cnf: *const Cnf) -> *mut Bdd;
    fn sdd_builder_new(vtree: *mut VTree) -> *mut c_void;
    fn sdd_builder_compile_cnf(b: *const c_void, cnf: *const Cnf) -> *mut SddPtr<'static>;
    fn sdd_wmc(sdd: *const SddPtr<'static>, w: *const WmcParams<RealSemiring>) -> f64;
    fn literal_new(label: VarLabel, polarity: bool) -> Literal;
    fn var_order_new(order: *const VarLabel, len: usize) -> *mut VarOrder;
    fn vtree_from_dtree(d: *const DTree) -> *mut VTree;
    fn dtree_from_cnf(cnf: *const Cnf, elim: *const VarOrder) -> *mut DTree;
}

pub fn run(ctx: &mut Ctx) {
    for case in ctx.cases("bdd_api", 300, true) {
        ctx.run_case("bdd_api", case, bdd_api_case);
    }
    for case in ctx.cases("frontends", 300, true) {
        ctx.run_case("frontends", case, frontends_case);
    }
    // call sequences that may kill the process (handles used more than once, NULL arrays of
    // length 0): only run as isolated cases, one process each (driver: `isolated`)
    if ctx.only.is_some() {
        for case in ctx.cases("handle_reuse", 12, false) {
            ctx.run_case("handle_reuse", case, |ctx, rng| handle_reuse_case(ctx, rng, case));
        }
    }
}

/// One CNF handle is given to every exported function that takes one, the compiling ones twice
/// (natively they all borrow the formula); empty arrays are passed as (NULL, 0), which is how a C
/// client represents them.
fn handle_reuse_case(ctx: &mut Ctx, rng: &mut Rng, case: u64) {
    crate::caps::set_unique(Some(64));
    ctx.count("isolated_c_sequences", 1);
    ctx.case_eval(Some(crate::rng::mix(0xC18 ^ case)));
    unsafe {
        if case % 4 == 0 {
            // (NULL, 0) arrays
            let which = (case / 4) % 3;
            ctx.count("null_array_calls", 1);
            match which {
                0 => {
                    let c = cnf_new(std::ptr::null(), 0);
                    if *c != Cnf::new(&[]) {
                        ctx.violation("ffi.cnf_new", "cnf_new(NULL, 0) is not the clause-free formula", json!({}));
                    }
                }
                1 => {
                    let cls = [Clause { vars: std::ptr::null_mut(), len: 0 }];
                    let c = cnf_new(cls.as_ptr(), 1);
                    if *c != Cnf::new(&[vec![]]) {
                        ctx.violation("ffi.cnf_new", "cnf_new of one (NULL, 0) clause is not the formula with one empty clause", json!({}));
                    }
                }
                _ => {
                    let o = var_order_new(std::ptr::null(), 0);
                    if format!("{}", *o) != format!("{}", VarOrder::new(&[])) {
                        ctx.violation("ffi.var_order_new", "var_order_new(NULL, 0) is not the empty order", json!({}));
                    }
                }
            }
            return;
        }
        let st = CnfStyle { max_vars: rng.range(2, 6), max_clauses: rng.range(1, 8), max_width: 3, allow_empty_clause: false, allow_empty_cnf: false, allow_taut: false, allow_dup: true };
        let mut cl = random_clauses(&st, rng);
        cl.retain(|c| !c.is_empty());
        if cl.is_empty() {
            cl.push(vec![(0, true), (1, false)]);
        }
        let n = clauses_num_vars(&cl);
        let t = clauses_tt(&cl, n);
        let info = json!({"clauses": clauses_json(&cl)});
        let native = clauses_to_cnf(&cl);
        let mut lits: Vec<Vec<Literal>> = cl.iter().map(|c| c.iter().map(|(v, p)| Literal::new(VarLabel::new(*v as u64), *p)).collect()).collect();
        let clauses: Vec<Clause> = lits.iter_mut().map(|l| Clause { vars: l.as_mut_ptr(), len: l.len() }).collect();
        let h = cnf_new(clauses.as_ptr(), clauses.len());
        // two BDD builders under different orders compile the SAME handle
        for round in 0..2 {
            let perm = rng.perm(n);
            let lbls: Vec<VarLabel> = perm.iter().map(|x| VarLabel::new(*x as u64)).collect();
            let b = robdd_builder_all_table(var_order_new(lbls.as_ptr(), lbls.len()));
            let r = robdd_builder_compile_cnf(b, h);
            ctx.count("c_calls_on_a_reused_cnf_handle", 1);
            let ct = c_tt(r, n, 0);
            if ct != t || *h != native {
                ctx.violation("ffi.handle_reuse", "a CNF handle compiled by a BDD builder is not usable (or not the same formula) afterwards",
                    json!({"round": round, "observed": ct.hex(), "expected": t.hex(), "input": info}));
                return;
            }
        }
        let mf = cnf_min_fill_order(h);
        if format!("{}", *mf) != format!("{}", native.min_fill_order()) {
            ctx.violation("ffi.handle_reuse", "cnf_min_fill_order on a handle that was compiled before differs from the native order", json!({"input": info}));
        }
        let (_, full_vt) = random_vtree(n, rng);
        for _ in 0..2 {
            let sb = sdd_builder_new(Box::into_raw(Box::new(full_vt.to_rsdd())));
            let sr = sdd_builder_compile_cnf(sb, h);
            ctx.count("c_calls_on_a_reused_cnf_handle", 1);
            if SddWalker::new(n).tt(*sr) != t {
                ctx.violation("ffi.handle_reuse", "sdd_builder_compile_cnf on a reused CNF handle gives a wrong function", json!({"input": info}));
            }
        }
        for _ in 0..2 {
            let dl: Vec<VarLabel> = rng.perm(n).iter().map(|x| VarLabel::new(*x as u64)).collect();
            let db = ddnnf_builder_new(var_order_new(dl.as_ptr(), dl.len()));
            let dr = ddnnf_builder_compile_cnf_topdown(db, h);
            ctx.count("c_calls_on_a_reused_cnf_handle", 1);
            if BddWalker::new(n).tt(*dr) != t {
                ctx.violation("ffi.handle_reuse", "ddnnf_builder_compile_cnf_topdown on a reused CNF handle gives a wrong function", json!({"input": info}));
            }
        }
        // and once more by a BDD builder at the end
        let b = robdd_builder_all_table(var_order_linear(n) as *mut VarOrder);
        let r = robdd_builder_compile_cnf(b, h);
        if c_tt(r, n, 0) != t {
            ctx.violation("ffi.handle_reuse", "a CNF handle used by every front end is not compiled correctly at the end", json!({"input": info}));
        }
    }
    crate::caps::reset();
}

/// canonical string of a diagram seen ONLY through the C accessors
unsafe fn c_canon(p: *mut Bdd, ids: &mut HashMap<String, usize>, out: &mut String, depth: usize) {
    assert!(depth < 64, "HARNESS: runaway recursion through the C accessors");
    if bdd_is_true(p) {
        out.push('T');
        return;
    }
    if bdd_is_false(p) {
        out.push('F');
        return;
    }
    let v = bdd_topvar(p);
    let lo = bdd_low(p);
    let hi = bdd_high(p);
    out.push_str(&format!("({} ", v));
    c_canon(lo, ids, out, depth + 1);
    out.push(' ');
    c_canon(hi, ids, out, depth + 1);
    out.push(')');
    let _ = ids;
}

/// truth table seen ONLY through the C accessors (low/high already apply the
/// complement of the pointer they are called on)
unsafe fn c_tt(p: *mut Bdd, n: usize, depth: usize) -> Tt {
    assert!(depth < 64, "HARNESS: runaway recursion through the C accessors");
    if bdd_is_true(p) {
        return Tt::konst(n, true);
    }
    if bdd_is_false(p) {
        return Tt::konst(n, false);
    }
    let v = bdd_topvar(p) as usize;
    let lo = c_tt(bdd_low(p), n, depth + 1);
    let hi = c_tt(bdd_high(p), n, depth + 1);
    Tt::var(n, v).ite(&hi, &lo)
}

/// the same expansion on a native pointer
fn native_expanded(p: BddPtr, out: &mut String) {
    match p {
        BddPtr::PtrTrue => out.push('T'),
        BddPtr::PtrFalse => out.push('F'),
        _ => {
            out.push_str(&format!("({} ", p.var_safe().unwrap().value()));
            native_expanded(p.low(), out);
            out.push(' ');
            native_expanded(p.high(), out);
            out.push(')');
        }
    }
}

fn bdd_api_case(ctx: &mut Ctx, rng: &mut Rng) {
    let n0 = rng.range(1, 5);
    let max_new = rng.below(3);
    let n = n0 + max_new;
    let perm = rng.perm(n0);
    let cfg = HistCfg {
        n0,
        max_new,
        order: perm.clone(),
        cache: CacheKind::All,
        uniq_cap: Some(*rng.pick(&[8usize, 64, 1024])),
        lru_bits: None,
        nops: rng.range(5, 40),
    };
    // only the operations the C API offers; xor / iff become ite forms
    let ops: Vec<Op> = gen_history(&cfg, rng)
        .into_iter()
        .map(|o| match o {
            Op::Xor(a, b) => Op::Ite(a, (b.0, !b.1), b),
            Op::Iff(a, b) => Op::Ite(a, b, (b.0, !b.1)),
            Op::Cond(a, ..) | Op::CondModel(a, ..) | Op::Exists(a, ..) => Op::Not(a),
            Op::AndLst(l) | Op::OrLst(l) => {
                if l.len() >= 2 {
                    Op::And(l[0], l[1])
                } else {
                    Op::Var(0, true)
                }
            }
            x => x,
        })
        .collect();
    let info = json!({"cfg": cfg.to_json(), "ops": ops.iter().map(|o| o.to_json()).collect::<Vec<_>>()});
    crate::caps::set_unique(cfg.uniq_cap);
    let lbls: Vec<VarLabel> = perm.iter().map(|x| VarLabel::new(*x as u64)).collect();
    let native = RobddBuilder::<AllIteTable<BddPtr>>::new(VarOrder::new(&lbls));
    let nb = &native;
    unsafe {
        let linear = perm.iter().enumerate().all(|(i, x)| i == *x);
        let cb: *mut c_void = if linear && rng.bool() {
            mk_bdd_manager_default_order(n0 as u64)
        } else {
            robdd_builder_all_table(var_order_new(lbls.as_ptr(), lbls.len()))
        };
        crate::caps::set_unique(None);
        // pools: C handles, native pointers, oracle tables
        let mut cp: Vec<*mut Bdd> = vec![bdd_false(cb), bdd_true(cb)];
        let mut np: Vec<BddPtr> = vec![nb.false_ptr(), nb.true_ptr()];
        let mut tp: Vec<Tt> = vec![Tt::konst(n, false), Tt::konst(n, true)];
        for v in 0..n0 {
            cp.push(bdd_var(cb, v as u64, true));
            np.push(nb.var(VarLabel::new(v as u64), true));
            tp.push(Tt::var(n, v));
        }
        let mut nvars = n0;
        for (step, op) in ops.iter().enumerate() {
            macro_rules! arg {
                ($a:expr) => {{
                    if $a.1 {
                        (bdd_negate(cb, cp[$a.0]), np[$a.0].neg(), tp[$a.0].not())
                    } else {
                        (cp[$a.0], np[$a.0], tp[$a.0].clone())
                    }
                }};
            }
            let (c, nn, t) = match op {
                Op::Var(v, p) => (bdd_var(cb, *v as u64, *p), nb.var(VarLabel::new(*v as u64), *p), Tt::lit(n, *v, *p)),
                Op::Not(a) => {
                    let (c, x, t) = arg!(a);
                    (bdd_negate(cb, c), nb.negate(x), t.not())
                }
                Op::And(a, b) => {
                    let (c1, x1, t1) = arg!(a);
                    let (c2, x2, t2) = arg!(b);
                    (bdd_and(cb, c1, c2), nb.and(x1, x2), t1.and(&t2))
                }
                Op::Or(a, b) => {
                    let (c1, x1, t1) = arg!(a);
                    let (c2, x2, t2) = arg!(b);
                    (bdd_or(cb, c1, c2), nb.or(x1, x2), t1.or(&t2))
                }
                Op::Ite(a, b, c) => {
                    let (c1, x1, t1) = arg!(a);
                    let (c2, x2, t2) = arg!(b);
                    let (c3, x3, t3) = arg!(c);
                    (bdd_ite(cb, c1, c2, c3), nb.ite(x1, x2, x3), t1.ite(&t2, &t3))
                }
                Op::Compose(a, v, b) => {
                    let (c1, x1, t1) = arg!(a);
                    let (c2, x2, t2) = arg!(b);
                    (bdd_compose(cb, c1, VarLabel::new(*v as u64), c2), nb.compose(x1, VarLabel::new(*v as u64), x2), t1.compose_doc(*v, &t2))
                }
                Op::NewVar(pol) => {
                    let (c, x) = if rng.bool() {
                        (bdd_new_var(cb, *pol), nb.new_var(*pol).1)
                    } else {
                        let cl = bdd_new_label(cb);
                        let nl = nb.new_label();
                        if cl != nl.value() {
                            ctx.violation("ffi.new_label", "bdd_new_label returns another label than the native call",
                                json!({"c": cl, "native": nl.value(), "input": info}));
                        }
                        (bdd_var(cb, cl, *pol), nb.var(nl, *pol))
                    };
                    nvars += 1;
                    (c, x, Tt::lit(n, nvars - 1, *pol))
                }
                _ => unreachable!(),
            };
            ctx.count("c_calls", 1);
            ctx.count(&format!("c_{}", op.name()), 1);
            // the C handle must be the very pointer the native sequence gives (same
            // structure) and denote the oracle's function, seen through the C accessors
            let ct = c_tt(c, n, 0);
            ctx.case_eval(if t.is_trivial() { None } else { Some(crate::rng::mix(t.hash64() ^ crate::rng::hash_str(op.name()) ^ crate::rng::hash_str(&format!("{:?}", perm)))) });
            if ct != t {
                ctx.violation(&format!("ffi.op.{}", op.name()), "diagram built through the C interface denotes a wrong function",
                    json!({"step": step, "op": op.to_json(), "observed": ct.hex(), "expected": t.hex(), "input": info}));
                free_bdd_manager(cb);
                return;
            }
            let mut cs = String::new();
            c_canon(c, &mut HashMap::new(), &mut cs, 0);
            let mut ns = String::new();
            native_expanded(nn, &mut ns);
            if cs != ns {
                ctx.violation("ffi.structure", "top variable / children seen through the C accessors differ from the native diagram",
                    json!({"step": step, "op": op.to_json(), "c": cs, "native": ns, "input": info}));
                free_bdd_manager(cb);
                return;
            }
            cp.push(c);
            np.push(nn);
            tp.push(t);
        }
        // ---- queries on the pool
        let m = cp.len();
        for i in 0..m {
            for j in 0..m {
                ctx.count("c_eq_pairs", 1);
                let ce = bdd_eq(cb, cp[i], cp[j]);
                let ne = nb.eq(np[i], np[j]);
                if ce != ne || ce != (tp[i] == tp[j]) {
                    ctx.violation("ffi.eq", "bdd_eq disagrees with native eq / function equality",
                        json!({"i": i, "j": j, "c": ce, "native": ne, "same_function": tp[i] == tp[j], "input": info}));
                }
            }
        }
        // weights: dyadic, exactly representable
        let wr: Vec<(OReal, OReal)> = (0..n).map(|_| { let nm = rng.bool(); OReal::random_pair(rng, nm) }).collect();
        let wc: Vec<(OCx, OCx)> = (0..n).map(|_| { let nm = rng.bool(); OCx::random_pair(rng, nm) }).collect();
        let wp: Vec<(OPoly, OPoly)> = (0..n).map(|_| { let nm = rng.bool(); OPoly::random_pair(rng, nm) }).collect();
        let pf = new_wmc_params_f64();
        let pc = new_wmc_params_complex();
        let pp = new_wmc_params_poly();
        let by_value_structs = !crate::caps::small();
        // weight tables are filled through C in a scrambled order, every other label first
        // with swapped weights and then overwritten: the table must hold the last value set
        let mut fill_order = rng.perm(n);
        for v in fill_order.clone() {
            if v % 2 == 0 {
                wmc_param_f64_set_weight(pf, v as u64, wr[v].1.to_r().0, wr[v].0.to_r().0);
                wmc_param_complex_set_weight(pc, v as u64, wc[v].1.to_r(), wc[v].0.to_r());
            }
        }
        fill_order.reverse();
        for v in fill_order {
            let (l, h) = (wr[v].0.to_r(), wr[v].1.to_r());
            wmc_param_f64_set_weight(pf, v as u64, l.0, h.0);
            let (cl, ch) = (wc[v].0.to_r(), wc[v].1.to_r());
            wmc_param_complex_set_weight(pc, v as u64, cl, ch);
            // The by-value struct returns use repr(C) structs that are private to rsdd and
            // therefore re-declared here; Miri rejects calls through re-declared (layout-
            // identical) struct types, so these six accessors are skipped in the Miri leg.
            if !by_value_structs {
                ctx.count("c_by_value_struct_calls_skipped", 1);
            } else {
                let back = wmc_param_f64_var_weight(pf, v as u64);
                if weight_f64_lo(back).to_bits() != l.0.to_bits() || weight_f64_hi(back).to_bits() != h.0.to_bits() {
                    ctx.violation("ffi.weights.f64", "f64 weight does not round-trip through the C weight table", json!({"var": v, "input": info}));
                }
                let backc = wmc_param_complex_var_weight(pc, v as u64);
                if weight_complex_lo(backc) != cl || weight_complex_hi(backc) != ch {
                    ctx.violation("ffi.weights.complex", "complex weight does not round-trip through the C weight table", json!({"var": v, "input": info}));
                }
            }
            // polynomial marshalling: coefficient arrays of the used length
            let lc: Vec<f64> = wp[v].0 .0.iter().take(wp[v].0.used()).map(|d| d.to_f64()).collect();
            let hc: Vec<f64> = wp[v].1 .0.iter().take(wp[v].1.used()).map(|d| d.to_f64()).collect();
            wmc_param_poly_set_weight(pp, v as u64, lc.as_ptr(), lc.len(), hc.as_ptr(), hc.len());
            let back_ptrs: Vec<(*mut Poly, &OPoly)> = if by_value_structs {
                let backp = wmc_param_poly_var_weight(pp, v as u64);
                vec![(backp.low, &wp[v].0), (backp.high, &wp[v].1)]
            } else {
                vec![(new_polynomial(lc.as_ptr(), lc.len()), &wp[v].0), (new_polynomial(hc.as_ptr(), hc.len()), &wp[v].1)]
            };
            for (ptr, want) in back_ptrs {
                let mut buf = vec![0f64; MAX_COEFFS + 4];
                let k = polynomial_get_coeffs(ptr, buf.as_mut_ptr(), buf.len());
                let len = polynomial_len(ptr);
                let ok = k == len && len == want.used() && (0..k).all(|i| crate::exact::f64_is(buf[i], want.0[i]));
                if !ok {
                    ctx.violation("ffi.weights.poly", "polynomial weight does not round-trip through the C interface",
                        json!({"var": v, "len": len, "copied": k, "expected_len": want.used(), "input": info}));
                }
                // a caller's buffer may be shorter than the polynomial: exactly min(len, max_len)
                // coefficients are written, nothing behind them is touched (sentinels)
                let short = rng.below(len + 2);
                let sentinel = f64::from_bits(0x7ff8_dead_beef_0001);
                let mut sb = vec![sentinel; short + 6];
                let k2 = polynomial_get_coeffs(ptr, sb.as_mut_ptr(), short);
                ctx.count("c_short_buffer_reads", 1);
                let intact = sb[usize::min(short, len)..].iter().all(|x| x.to_bits() == sentinel.to_bits());
                if k2 != usize::min(len, short) || !intact || !(0..k2).all(|i| crate::exact::f64_is(sb[i], want.0[i])) {
                    ctx.violation("ffi.weights.poly.short_buffer", "polynomial_get_coeffs with a buffer shorter than the polynomial: wrong count, wrong coefficients or a write behind max_len",
                        json!({"var": v, "len": len, "max_len": short, "copied": k2, "memory_behind_untouched": intact}));
                }
                destroy_polynomial(ptr);
            }
            ctx.count("c_weight_roundtrips", 3);
        }
        for i in 0..m {
            let (c, x, t) = (cp[i], np[i], &tp[i]);
            // constants / counts / printing / json
            if bdd_is_true(c) != x.is_true() || bdd_is_false(c) != x.is_false() || bdd_is_const(c) != x.is_const() {
                ctx.violation("ffi.is_const", "bdd_is_true/false/const disagree with the native pointer", json!({"i": i, "input": info}));
            }
            if bdd_count_nodes(c) != x.count_nodes() {
                ctx.violation("ffi.count_nodes", "bdd_count_nodes differs from the native count", json!({"i": i, "input": info}));
            }
            let cj = CStr::from_ptr(bdd_to_json(c)).to_string_lossy().to_string();
            let nj = serde_json::to_string(&BDDSerializer::from_bdd(x)).expect("HARNESS: json");
            if cj != nj {
                ctx.violation("ffi.json", "bdd_to_json differs from the native serialiser's output", json!({"i": i, "c": cj, "native": nj, "input": info}));
            }
            let cpr = CStr::from_ptr(print_bdd(c)).to_string_lossy().to_string();
            if cpr != x.print_bdd() {
                ctx.violation("ffi.print", "print_bdd differs from the native printer", json!({"i": i, "c": cpr, "native": x.print_bdd(), "input": info}));
            }
            ctx.count("c_queries", 4);
            if !x.is_const() {
                // scratch accessors
                bdd_set_scratch(c, 41 + i);
                let s = bdd_scratch(c, 7);
                bdd_clear_scratch(c);
                let s2 = bdd_scratch(c, 7);
                if s != 41 + i || s2 != 7 || !x.is_scratch_cleared() {
                    ctx.violation("ffi.scratch", "bdd_set_scratch / bdd_scratch / bdd_clear_scratch do not behave like the native scratch", json!({"i": i, "input": info}));
                }
            }
            // model count: over the variables the manager knows now
            let mc = robdd_model_count(cb, c);
            let want = t.count() >> (n - nvars);
            ctx.count("c_model_counts", 1);
            if mc != want {
                ctx.violation("ffi.model_count", "robdd_model_count is not the number of models",
                    json!({"i": i, "c": mc, "expected": want, "num_vars": nvars, "function": t.hex(), "input": info}));
            }
        }
        // weighted counts, in rounds: between two rounds some weights of the SAME C weight tables
        // are overwritten through the C setters ("any call sequence": count, set_weight, count
        // again on one table and one diagram must see the new weights)
        let (mut wr, mut wc, mut wp) = (wr, wc, wp);
        let rounds = 1 + rng.below(3);
        for round in 0..rounds {
            if round > 0 {
                for v in 0..n {
                    if !rng.chance(1, 3) {
                        continue;
                    }
                    let nm = rng.bool();
                    match rng.below(3) {
                        0 => {
                            wr[v] = OReal::random_pair(rng, nm);
                            wmc_param_f64_set_weight(pf, v as u64, wr[v].0.to_r().0, wr[v].1.to_r().0);
                        }
                        1 => {
                            wc[v] = OCx::random_pair(rng, nm);
                            wmc_param_complex_set_weight(pc, v as u64, wc[v].0.to_r(), wc[v].1.to_r());
                        }
                        _ => {
                            wp[v] = OPoly::random_pair(rng, nm);
                            let lc: Vec<f64> = wp[v].0 .0.iter().take(wp[v].0.used()).map(|d| d.to_f64()).collect();
                            let hc: Vec<f64> = wp[v].1 .0.iter().take(wp[v].1.used()).map(|d| d.to_f64()).collect();
                            wmc_param_poly_set_weight(pp, v as u64, lc.as_ptr(), lc.len(), hc.as_ptr(), hc.len());
                        }
                    }
                    ctx.count("c_weights_overwritten_between_counts", 1);
                }
            }
            let exact = float_exact(&wr) && float_exact(&wc) && float_exact(&wp);
            let native_pf = params(&wr);
            let native_pc = params(&wc);
            let native_pp = params(&wp);
          for i in 0..m {
            let (c, x, t) = (cp[i], np[i], &tp[i]);
            if round > 0 && rng.chance(1, 3) {
                continue;
            }
            if !exact {
                ctx.count("skipped_not_exactly_representable", 1);
                continue;
            }
            // weighted counts: C == native bit for bit, and == the oracle's unsmoothed count
            let order_now: Vec<usize> = perm.iter().cloned().chain(n0..nvars).collect();
            let cw = bdd_wmc(c, pf);
            let nw = x.unsmoothed_wmc(&native_pf);
            let ow = unsmoothed(&restrict_to(t, nvars), &wr, &order_now);
            ctx.count("c_wmc", 3);
            if cw.to_bits() != nw.0.to_bits() || !ow.matches(&nw) {
                ctx.violation("ffi.wmc.f64", "bdd_wmc differs from the native count / the oracle",
                    json!({"i": i, "c": cw, "native": nw.0, "oracle": ow.show(), "input": info}));
            }
            let cc = bdd_wmc_complex(c, pc);
            let nc = x.unsmoothed_wmc(&native_pc);
            let oc = unsmoothed(&restrict_to(t, nvars), &wc, &order_now);
            if cc != nc || !oc.matches(&nc) {
                ctx.violation("ffi.wmc.complex", "bdd_wmc_complex differs from the native count / the oracle",
                    json!({"i": i, "c": format!("{:?}", cc), "native": format!("{:?}", nc), "oracle": oc.show(), "input": info}));
            }
            let cpo = bdd_wmc_poly(c, pp);
            let npo = x.unsmoothed_wmc(&native_pp);
            let opo = unsmoothed(&restrict_to(t, nvars), &wp, &order_now);
            let mut buf = vec![0f64; MAX_COEFFS];
            let k = polynomial_get_coeffs(cpo, buf.as_mut_ptr(), MAX_COEFFS);
            let clen = polynomial_len(cpo);
            let same_native = clen == npo.len && k == clen && (0..k).all(|j| buf[j].to_bits() == npo.coefficients[j].0.to_bits());
            // read through the C interface only `len` coefficients exist: they must carry the whole value
            let covers = opo.used() <= k && (0..k).all(|j| crate::exact::f64_is(buf[j], opo.0[j]));
            if !same_native || !covers {
                ctx.violation("ffi.wmc.poly", "bdd_wmc_poly (read back through polynomial_get_coeffs) differs from the native count / the oracle",
                    json!({"i": i, "c_len": clen, "native_len": npo.len, "c": buf[..k].to_vec(), "oracle": opo.show(), "input": info}));
            }
            destroy_polynomial(cpo);
          }
        }
        if bdd_num_recursive_calls(cb) != nb.num_recursive_calls() {
            // both executed the same sequence except for the queries issued through C only
            ctx.count("recursive_call_counters_differ", 1);
        }
        free_wmc_params_f64(pf);
        free_wmc_params_complex(pc);
        destroy_wmc_params_poly(pp);
        free_bdd_manager(cb);
    }
    if ctx.wants_sample() {
        ctx.sample(json!({"regime": "bdd_api", "input": info}));
    }
}

/// a table over n variables that ignores the variables >= k, viewed as is (helper for clarity)
fn restrict_to(t: &Tt, _k: usize) -> Tt {
    t.clone()
}

fn frontends_case(ctx: &mut Ctx, rng: &mut Rng) {
    let mv = rng.range(1, 7);
    let st = CnfStyle {
        max_vars: mv,
        max_clauses: rng.range(1, mv + 3),
        max_width: rng.range(1, 4),
        allow_empty_clause: false,
        allow_empty_cnf: false,
        allow_taut: rng.chance(1, 4),
        allow_dup: rng.chance(1, 4),
    };
    let mut cl = random_clauses(&st, rng);
    cl.retain(|c| !c.is_empty());
    if cl.is_empty() {
        return;
    }
    // cnf_new / compile through C also with empty clauses in the list (the text-based and
    // heuristic front ends below keep to clause lists without them, S9)
    if rng.chance(1, 4) {
        let mut with_empty = cl.clone();
        with_empty.insert(rng.below(with_empty.len() + 1), vec![]);
        if rng.chance(1, 3) {
            with_empty.push(vec![]);
        }
        let native = clauses_to_cnf(&with_empty);
        unsafe {
            let mut lits: Vec<Vec<Literal>> = with_empty.iter().map(|c| c.iter().map(|(v, p)| literal_new(VarLabel::new(*v as u64), *p)).collect()).collect();
            let clauses: Vec<Clause> = lits.iter_mut().map(|l| Clause { vars: l.as_mut_ptr(), len: l.len() }).collect();
            let c_cnf = cnf_new(clauses.as_ptr(), clauses.len());
            ctx.count("c_frontend_calls", 1);
            ctx.count("c_cnf_new_with_empty_clause", 1);
            if *c_cnf != native {
                ctx.violation("ffi.cnf_new", "cnf_new differs from Cnf::new on a clause list with an empty clause",
                    json!({"clauses": clauses_json(&with_empty)}));
            } else {
                let nn = usize::max(native.num_vars(), 1);
                let cb = mk_bdd_manager_default_order(nn as u64);
                let cr = robdd_builder_compile_cnf(cb, c_cnf);
                if !bdd_is_false(cr) {
                    ctx.violation("ffi.robdd_compile_cnf", "a CNF with an empty clause compiled through C is not false",
                        json!({"clauses": clauses_json(&with_empty)}));
                }
                free_bdd_manager(cb);
            }
        }
    }
    let n = clauses_num_vars(&cl);
    let t = clauses_tt(&cl, n);
    let info = json!({"clauses": clauses_json(&cl)});
    ctx.case_eval(if t.is_trivial() { None } else { Some(crate::rng::hash_str(&info.to_string())) });
    let native_cnf = clauses_to_cnf(&cl);
    // the SDD / d-DNNF builders created through C cannot be freed through C (no free
    // function is exported), so keep their tables small: the capacity hook is
    // thread-local and applies to builders created behind the C boundary as well
    crate::caps::set_unique(Some(64));
    unsafe {
        // cnf_new + literal_new
        let mut lits: Vec<Vec<Literal>> = cl.iter().map(|c| c.iter().map(|(v, p)| literal_new(VarLabel::new(*v as u64), *p)).collect()).collect();
        for (c, l) in cl.iter().zip(lits.iter()) {
            for ((v, p), lit) in c.iter().zip(l.iter()) {
                if *lit != Literal::new(VarLabel::new(*v as u64), *p) {
                    ctx.violation("ffi.literal_new", "literal_new differs from Literal::new", json!({"input": info}));
                }
            }
        }
        let clauses: Vec<Clause> = lits.iter_mut().map(|l| Clause { vars: l.as_mut_ptr(), len: l.len() }).collect();
        let c_cnf = cnf_new(clauses.as_ptr(), clauses.len());
        ctx.count("c_frontend_calls", 1);
        if *c_cnf != native_cnf {
            ctx.violation("ffi.cnf_new", "cnf_new differs from Cnf::new", json!({"input": info}));
        }
        // cnf_from_dimacs
        let mut text = format!("p cnf {} {}\n", n, cl.len());
        for c in &cl {
            for (v, p) in c {
                text.push_str(&format!("{}{} ", if *p { "" } else { "-" }, v + 1));
            }
            text.push_str("0\n");
        }
        let ctext = CString::new(text.clone()).unwrap();
        let d_cnf = cnf_from_dimacs(ctext.as_ptr());
        ctx.count("c_frontend_calls", 1);
        if *d_cnf != Cnf::from_dimacs(&text) {
            ctx.violation("ffi.cnf_from_dimacs", "cnf_from_dimacs differs from Cnf::from_dimacs", json!({"text": text}));
        }
        // orders
        let mf = cnf_min_fill_order(c_cnf);
        let nmf = native_cnf.min_fill_order();
        ctx.count("c_frontend_calls", 1);
        if format!("{}", *mf) != format!("{}", nmf) {
            ctx.violation("ffi.min_fill", "cnf_min_fill_order differs from the native order", json!({"c": format!("{}", *mf), "native": format!("{}", nmf), "input": info}));
        }
        let lin = var_order_linear(n);
        if format!("{}", *lin) != format!("{}", VarOrder::linear_order(n)) {
            ctx.violation("ffi.var_order_linear", "var_order_linear differs from the native order", json!({"n": n}));
        }
        let perm = rng.perm(n);
        let lbls: Vec<VarLabel> = perm.iter().map(|x| VarLabel::new(*x as u64)).collect();
        let vo = var_order_new(lbls.as_ptr(), lbls.len());
        if format!("{}", *vo) != format!("{}", VarOrder::new(&lbls)) {
            ctx.violation("ffi.var_order_new", "var_order_new differs from VarOrder::new", json!({"perm": perm}));
        }
        // BDD compile through C (consumes the order and the cnf boxes)
        let cb = robdd_builder_all_table(vo);
        let cnf_box = Box::into_raw(Box::new(native_cnf.clone()));
        let cr = robdd_builder_compile_cnf(cb, cnf_box);
        let nbld = RobddBuilder::<AllIteTable<BddPtr>>::new(VarOrder::new(&lbls));
        let nr = nbld.compile_cnf(&native_cnf);
        ctx.count("c_frontend_calls", 1);
        let ct = c_tt(cr, n, 0);
        if ct != t || bdd_canon_string(*cr) != bdd_canon_string(nr) {
            ctx.violation("ffi.robdd_compile_cnf", "robdd_builder_compile_cnf differs from the native compilation / the CNF's function",
                json!({"observed": ct.hex(), "expected": t.hex(), "order": perm, "input": info}));
        }
        if robdd_model_count(cb, cr) != t.count() {
            ctx.violation("ffi.model_count", "robdd_model_count of a compiled CNF is not its number of models",
                json!({"c": robdd_model_count(cb, cr), "expected": t.count(), "order": perm, "input": info}));
        }
        free_bdd_manager(cb);
        // dtree / vtree
        let elim = rng.perm(n);
        let elbls: Vec<VarLabel> = elim.iter().map(|x| VarLabel::new(*x as u64)).collect();
        let eo = var_order_new(elbls.as_ptr(), elbls.len());
        let dt = dtree_from_cnf(c_cnf, eo);
        let ndt = DTree::from_cnf(&native_cnf, &VarOrder::new(&elbls));
        ctx.count("c_frontend_calls", 2);
        if format!("{:?}", *dt) != format!("{:?}", ndt) {
            ctx.violation("ffi.dtree_from_cnf", "dtree_from_cnf differs from DTree::from_cnf", json!({"elim": elim, "input": info}));
        }
        let vt = vtree_from_dtree(dt);
        let nvt = VTree::from_dtree(&ndt);
        match (vt.is_null(), &nvt) {
            (true, None) => {}
            (false, Some(v)) if *vt == *v => {}
            _ => ctx.violation("ffi.vtree_from_dtree", "vtree_from_dtree differs from VTree::from_dtree", json!({"elim": elim, "input": info})),
        }
        // SDD compile + wmc through C (the vtree must cover variables 0..n: use a full one)
        let (_, full_vt) = random_vtree(n, rng);
        let sb = sdd_builder_new(Box::into_raw(Box::new(full_vt.to_rsdd())));
        let sr = sdd_builder_compile_cnf(sb, c_cnf);
        let nsb = CompressionSddBuilder::new(full_vt.to_rsdd());
        let nsr = nsb.compile_cnf(&native_cnf);
        ctx.count("c_frontend_calls", 2);
        let st_ = SddWalker::new(n).tt(*sr);
        if st_ != t || sdd_canon_string(*sr) != sdd_canon_string(nsr) {
            ctx.violation("ffi.sdd_compile_cnf", "sdd_builder_compile_cnf differs from the native compilation / the CNF's function",
                json!({"observed": st_.hex(), "expected": t.hex(), "vtree": full_vt.to_json(), "input": info}));
        }
        let wr: Vec<(OReal, OReal)> = (0..n).map(|_| (OReal(Dy::new(8 - (rng.below(9) as i128), 3)), OReal(Dy::int(0)))).map(|(l, _)| { let h = OReal(Dy::int(1).sub(l.0)); (l, h) }).collect();
        let pf = new_wmc_params_f64();
        for v in 0..n {
            wmc_param_f64_set_weight(pf, v as u64, wr[v].0.to_r().0, wr[v].1.to_r().0);
        }
        let sw = sdd_wmc(sr, pf);
        let nsw = nsr.unsmoothed_wmc(&params(&wr));
        if sw.to_bits() != nsw.0.to_bits() || !full_sum(&t, &wr).matches(&nsw) {
            ctx.violation("ffi.sdd_wmc", "sdd_wmc differs from the native count / the oracle",
                json!({"c": sw, "native": nsw.0, "oracle": full_sum(&t, &wr).show(), "input": info}));
        }
        free_wmc_params_f64(pf);
        // top-down through C
        let dlbls: Vec<VarLabel> = rng.perm(n).iter().map(|x| VarLabel::new(*x as u64)).collect();
        let db = ddnnf_builder_new(var_order_new(dlbls.as_ptr(), dlbls.len()));
        let dr = ddnnf_builder_compile_cnf_topdown(db, c_cnf);
        let ndb = StandardDecisionNNFBuilder::new(VarOrder::new(&dlbls));
        let ndr = ndb.compile_cnf_topdown(&native_cnf);
        ctx.count("c_frontend_calls", 2);
        let dtt = BddWalker::new(n).tt(*dr);
        if dtt != t || bdd_canon_string(*dr) != bdd_canon_string(ndr) {
            ctx.violation("ffi.ddnnf_compile", "ddnnf_builder_compile_cnf_topdown differs from the native compilation / the CNF's function",
                json!({"observed": dtt.hex(), "expected": t.hex(), "input": info}));
        }
        // the remaining boxes (cnf, orders, trees, builders) are leaked like a C client
        // without free functions would; leak checking is off for this workload
    }
    crate::caps::reset();
    if ctx.wants_sample() {
        ctx.sample(json!({"regime": "frontends", "input": info}));
    }
    let _: Option<Value> = None;
}
