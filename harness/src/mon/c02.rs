//! C02 -- ROBDD canonicity and shape, across table growth and cache evictions.
use crate::bddhist::*;
use crate::ctx::Ctx;
use crate::rng::Rng;
use rsdd::verif::BackedRobinhoodTable;
use crate::walk::bdd_nodes;
use crate::with_robdd;
use rsdd::builder::bdd::BddBuilder;
use rsdd::builder::BottomUpBuilder;
use rsdd::repr::{BddNode, BddPtr, DDNNFPtr, VarLabel};
use serde_json::json;
use std::collections::{HashMap, HashSet};

pub fn run(ctx: &mut Ctx) {
    let checks = Checks {
        function: false,
        std_triple: false,
        canon: true,
        record_canon: false,
        keep_ptrs: false,
    };
    // short histories with tiny tables (growth every few inserts, constant eviction)
    for case in ctx.cases("rand", 2000, true) {
        let c2 = checks.clone();
        ctx.run_case("rand", case, move |ctx, rng| {
            let mut cfg = random_cfg(rng, 6, true);
            cfg.nops = rng.range(10, 90);
            let ops = gen_history(&cfg, rng);
            let r = run_history(ctx, &cfg, &ops, &c2);
            if r.grows > 0 {
                ctx.count("histories_with_growth", 1);
            }
        });
    }
    // the same in a manager of up to 200 variables (history variables spread over the labels)
    for case in ctx.cases("wide", 300, true) {
        let c2 = checks.clone();
        ctx.run_case("wide", case, move |ctx, rng| {
            let mut cfg = random_cfg(rng, 6, true);
            cfg.nops = rng.range(10, 90);
            let ops = gen_history(&cfg, rng);
            let _g = crate::gen::LabelMapGuard::new(crate::gen::random_label_map(cfg.n0, rng));
            ctx.count("histories_over_spread_labels", 1);
            run_history(ctx, &cfg, &ops, &c2);
        });
    }
    // fault injection on hash quality (hooks H6/H7): node hashes fall into 8-64 classes, so the
    // table meets different nodes with one 64-bit hash all the time and has to compare the nodes
    // themselves (`Hash`/`Eq` of BddNode are consulted on unequal nodes, which never happens with
    // the real hash); function, canonicity, shape and membership are checked as usual
    for case in ctx.cases("weak_hash", 500, true) {
        ctx.run_case("weak_hash", case, move |ctx, rng| {
            let mut cfg = random_cfg(rng, 6, true);
            cfg.nops = rng.range(10, 60);
            let ops = gen_history(&cfg, rng);
            let w = crate::caps::WeakHash::new(Some(crate::caps::weak_classes(rng, &ctx.profile.clone(), false)), Some(*rng.pick(&[1u64, 2, 5, 17])));
            let all = Checks { function: true, std_triple: false, canon: true, record_canon: false, keep_ptrs: false };
            run_history(ctx, &cfg, &ops, &all);
            ctx.count("histories_with_weak_hashes", 1);
            ctx.count("unique_table_hash_clashes", w.clashes());
        });
    }
    for case in ctx.cases("long", 12, true) {
        let c2 = checks.clone();
        ctx.run_case("long", case, move |ctx, rng| {
            let mut cfg = random_cfg(rng, 10, true);
            cfg.nops = rng.range(600, 1500);
            let ops = gen_history(&cfg, rng);
            let r = run_history(ctx, &cfg, &ops, &c2);
            if r.grows > 0 {
                ctx.count("histories_with_growth", 1);
            }
            ctx.maxc("nodes_in_one_builder", r.nodes as u64);
        });
    }
    // direct set-model monitor of the unique table
    for case in ctx.cases("table", 600, true) {
        ctx.run_case("table", case, |ctx, rng| table_model(ctx, rng));
    }
    // library-default capacities, > 100 000 nodes in one builder: the real 131072-slot
    // table grows (no truth tables here: canonicity by re-deriving every function along
    // a second construction path, shape and table membership as before)
    let nbig = if ctx.tier == "thorough" { 12 } else { 2 };
    for case in ctx.cases("default_big", nbig, false) {
        ctx.run_case("default_big", case, |ctx, rng| big_default(ctx, rng, case));
    }
    if ctx.tier == "thorough" || ctx.only.is_some() {
        // library-default capacity: enough nodes that the real 131072-slot table grows
        for case in ctx.cases("default", 4, false) {
            let c2 = checks.clone();
            ctx.run_case("default", case, move |ctx, rng| {
                let mut cfg = random_cfg(rng, 14, false);
                cfg.n0 = 14;
                cfg.max_new = 0;
                cfg.order = rng.perm(14);
                cfg.uniq_cap = None;
                cfg.lru_bits = None;
                cfg.nops = 2500;
                let ops = gen_history(&cfg, rng);
                let r = run_history(ctx, &cfg, &ops, &c2);
                ctx.maxc("nodes_in_one_builder", r.nodes as u64);
                if r.grows > 0 {
                    ctx.count("default_table_growths", r.grows);
                }
            });
        }
    }
}

#[derive(Clone, PartialEq, Eq, Hash, Debug)]
struct Key(u64);

/// Drive `BackedRobinhoodTable` directly against a set model with adversarial
/// hashes: equal hashes for different keys, adjacent home slots, wrap-around at
/// the last slot, across repeated growth.
fn table_model(ctx: &mut Ctx, rng: &mut Rng) {
    let cap0 = *rng.pick(&[2usize, 3, 4, 5, 8, 16]);
    crate::caps::set_unique(Some(cap0));
    let _ = rsdd::verif::take_counters();
    let tbl: *mut BackedRobinhoodTable<'static, Key> = Box::into_raw(Box::new(BackedRobinhoodTable::new()));
    crate::caps::set_unique(None);
    let nkeys = rng.range(4, 120);
    let style = rng.below(4);
    // key -> hash (a function of the key, chosen adversarially)
    let hash_of = |k: u64, rng_salt: u64| -> u64 {
        match style {
            0 => crate::rng::mix(k ^ rng_salt),             // spread
            1 => (k % 3) + (rng_salt % 5),                  // heavy collisions, adjacent homes
            2 => u64::MAX - (k % 4),                        // near the wrap-around
            _ => (k / 2) * 64 + (rng_salt % 2),             // same low bits across capacities
        }
    };
    let salt = rng.next();
    let mut model: HashMap<u64, usize> = HashMap::new(); // key -> address
    let mut addrs: HashSet<usize> = HashSet::new();
    let nops = rng.range(20, 400);
    let mut history: Vec<u64> = Vec::new();
    for step in 0..nops {
        let k = rng.below(nkeys) as u64;
        let h = hash_of(k, salt);
        history.push(k);
        let r: &Key = unsafe { (&mut *tbl).get_or_insert_by_hash(h, Key(k), false) };
        let addr = r as *const Key as usize;
        ctx.count("table_ops", 1);
        let mut bad: Option<String> = None;
        if r.0 != k {
            bad = Some(format!("returned element {} for key {}", r.0, k));
        }
        match model.get(&k) {
            Some(a) => {
                ctx.count("table_hits_expected", 1);
                if *a != addr {
                    bad = Some("second address for a stored key".to_string());
                }
            }
            None => {
                if addrs.contains(&addr) {
                    bad = Some("new key aliased an existing element".to_string());
                }
                model.insert(k, addr);
                addrs.insert(addr);
            }
        }
        let tref = unsafe { &*tbl };
        if tref.num_nodes() != model.len() {
            bad = Some(format!("num_nodes {} but {} distinct keys", tref.num_nodes(), model.len()));
        }
        if step % 16 == 15 || step + 1 == nops {
            // iter yields every element exactly once
            let mut seen: HashSet<usize> = HashSet::new();
            let mut cnt = 0usize;
            for e in tref.iter() {
                cnt += 1;
                seen.insert(e as *const Key as usize);
            }
            if cnt != model.len() || seen != addrs {
                bad = Some(format!("iter yields {} elements ({} distinct), model has {}", cnt, seen.len(), model.len()));
            }
            // every stored hash is found by get_by_hash, and the element found has that hash
            for (kk, _) in model.iter() {
                let hh = hash_of(*kk, salt);
                match unsafe { (&mut *tbl).get_by_hash(hh) } {
                    None => bad = Some(format!("get_by_hash misses stored hash of key {}", kk)),
                    Some(e) => {
                        if hash_of(e.0, salt) != hh {
                            bad = Some("get_by_hash returned an element with another hash".to_string());
                        }
                    }
                }
            }
        }
        if let Some(why) = bad {
            ctx.violation("table.model", &why.split(|c: char| c.is_ascii_digit()).next().unwrap_or("").trim().to_string(),
                json!({"why": why, "initial_capacity": cap0, "hash_style": style, "step": step,
                    "capacity_now": tref.verif_capacity(), "keys": history}));
            break;
        }
    }
    let (g, _, _) = rsdd::verif::take_counters();
    ctx.count("table_grows", g);
    if g > 0 {
        ctx.count("table_histories_with_growth", 1);
    }
    ctx.count("table_histories", 1);
    ctx.case_eval(Some(crate::rng::mix(salt ^ (nkeys as u64) << 8 ^ cap0 as u64)));
    if ctx.wants_sample() {
        ctx.sample(json!({"regime": "table", "initial_capacity": cap0, "hash_style": style,
            "keys": history.iter().take(24).collect::<Vec<_>>(), "grows": g}));
    }
    // the table (and its arena) is intentionally leaked, like the builders' arenas
}

fn big_default(ctx: &mut Ctx, rng: &mut Rng, case: u64) {
    let n = rng.range(80, 100);
    let cfg = HistCfg {
        n0: n,
        max_new: 0,
        order: rng.perm(n),
        cache: if case % 2 == 0 { CacheKind::All } else { CacheKind::Lru },
        uniq_cap: None,
        lru_bits: None,
        nops: 0,
    };
    let target = rng.range(100_000, 125_000);
    with_robdd!(cfg, b, {
        let lit = |v: usize, p: bool| b.var(VarLabel::new(v as u64), p);
        let mut made: Vec<(usize, usize, usize, u8, BddPtr)> = Vec::with_capacity(target);
        // conjunctions of three literals over distinct variables, in random order
        let mut seen = std::collections::HashSet::new();
        while made.len() < target {
            let mut t = [rng.below(n), rng.below(n), rng.below(n)];
            t.sort();
            if t[0] == t[1] || t[1] == t[2] {
                continue;
            }
            let pol = rng.below(8) as u8;
            if !seen.insert((t[0], t[1], t[2], pol)) {
                continue;
            }
            let a = lit(t[0], pol & 1 == 1);
            let c = lit(t[1], pol & 2 == 2);
            let d = lit(t[2], pol & 4 == 4);
            let r = b.and(b.and(a, c), d);
            made.push((t[0], t[1], t[2], pol, r));
        }
        let (grows, _, _) = rsdd::verif::take_counters();
        ctx.count("default_table_growths", grows);
        ctx.count("big_results", made.len() as u64);
        // second construction path for every function, after the table has grown
        let mut known: std::collections::HashMap<usize, &BddNode> = std::collections::HashMap::new();
        for (k, (i, j, l, pol, r)) in made.iter().enumerate() {
            let a = lit(*i, pol & 1 == 1);
            let c = lit(*j, pol & 2 == 2);
            let d = lit(*l, pol & 4 == 4);
            let r2 = b.and(d, b.and(c, a));
            ctx.count("big_rederivations", 1);
            if r2 != *r || !b.eq(r2, *r) {
                ctx.violation("bdd.canon.default_capacity", "the same function derived twice gives two nodes (library-default table size)",
                    json!({"vars": [i, j, l], "polarities": pol, "index": k, "results_before": made.len(), "table_growths": grows, "cfg": cfg.to_json()}));
                return;
            }
            if k % 7 == 0 {
                for nd in bdd_nodes(*r) {
                    known.insert(nd as *const BddNode as usize, nd);
                }
            }
        }
        for nd in known.values() {
            ctx.count("membership_lookups", 1);
            let level = |v: rsdd::repr::VarLabel| cfg.order.iter().position(|x| *x == v.value_usize()).unwrap();
            let lvl = level(nd.var);
            let ok_shape = nd.low != nd.high
                && !matches!(nd.high, BddPtr::Compl(_) | BddPtr::PtrFalse)
                && [nd.low, nd.high].iter().all(|c| c.var_safe().map(|v| level(v) > lvl).unwrap_or(true));
            if !ok_shape {
                ctx.violation("bdd.shape", "malformed node (library-default table size)", json!({"cfg": cfg.to_json()}));
                return;
            }
            if b.get_or_insert(BddNode::new(nd.var, nd.low, nd.high)) != BddPtr::Reg(nd) {
                ctx.violation("bdd.table.membership", "lookup of a stored node returned another address",
                    json!({"when": "default capacity, after growth", "table_growths": grows, "cfg": cfg.to_json()}));
                return;
            }
        }
        ctx.maxc("nodes_in_one_builder", made.len() as u64);
        ctx.case_eval(Some(crate::rng::mix(rng.next())));
        let _ = made[0].4.is_true();
    });
}
