//! C03 -- SDD operations compute exactly the Boolean function they name.
use crate::ctx::Ctx;
use crate::gen::Vt;
use crate::rng::all_perms;
use crate::sddhist::*;
use crate::tt::Tt;
use crate::walk::SddWalker;
use rsdd::builder::sdd::{CompressionSddBuilder, SddBuilder};
use rsdd::builder::BottomUpBuilder;
use rsdd::repr::{DDNNFPtr, SddPtr, VarLabel};
use serde_json::json;

pub fn run(ctx: &mut Ctx) {
    let checks = SddChecks {
        function: true,
        wellformed: false,
        record_canon: false,
        cold_replay_every: 0,
    };
    // exhaustive over vtrees: all 5 shapes x all 24 labellings on 4 leaves (+ 2x6 on 3), both
    // compression modes; a random history on each
    let mut vts: Vec<Vt> = Vec::new();
    for p in all_perms(4) {
        vts.extend(Vt::all_shapes(&p));
    }
    for p in all_perms(3) {
        vts.extend(Vt::all_shapes(&p));
    }
    let nv = vts.len() as u64; // 120 + 12
    for case in ctx.cases("allvtrees", nv * 2, false) {
        let vt = vts[(case / 2) as usize].clone();
        let compress = case % 2 == 0;
        let c2 = checks.clone();
        ctx.run_case("allvtrees", case, move |ctx, rng| {
            let n = vt.leaves().len();
            let cfg = SddCfg {
                n,
                vtree: vt,
                family: "enumerated".into(),
                compress,
                uniq_cap: Some(8),
                nops: if compress { 60 } else { 16 },
            };
            let ops = gen_sdd_history(n, cfg.nops, rng);
            run_sdd_history(ctx, &cfg, &ops, &c2);
        });
    }
    // exhaustive: all 256 functions of 3 variables under every vtree on 3 leaves (2 shapes x
    // 6 labellings), compression on: and/or over all ordered pairs, all cofactors, exists,
    // negation; xor / iff / compose / ite on every 8th second operand
    let mut vt3: Vec<Vt> = Vec::new();
    for p in all_perms(3) {
        vt3.extend(Vt::all_shapes(&p));
    }
    for case in ctx.cases("exh3", (vt3.len() * 8) as u64, false) {
        let vt = vt3[(case / 8) as usize].clone();
        ctx.run_case("exh3", case, move |ctx, _rng| exhaustive3(ctx, &vt, (case % 8) as usize));
    }
    // fault injection on hash quality (hook H6): node hashes fall into a few classes, the SDD
    // tables must tell different nodes with one hash apart; both compression modes
    for case in ctx.cases("weak_hash", 300, true) {
        let c2 = checks.clone();
        ctx.run_case("weak_hash", case, move |ctx, rng| {
            let mut cfg = random_sdd_cfg(rng, 6, true);
            cfg.nops = if cfg.compress { rng.range(5, 50) } else { rng.range(4, 14) };
            let ops = gen_sdd_history(cfg.n, cfg.nops, rng);
            let w = crate::caps::WeakHash::new(Some(crate::caps::weak_classes(rng, &ctx.profile.clone(), false)), None);
            run_sdd_history(ctx, &cfg, &ops, &c2);
            ctx.count("histories_with_weak_hashes", 1);
            ctx.count("unique_table_hash_clashes", w.clashes());
        });
    }
    // the same with the vtree's variables spread over up to 200 labels (label set with gaps,
    // 64/128 boundaries included)
    for case in ctx.cases("wide", 300, true) {
        let c2 = checks.clone();
        ctx.run_case("wide", case, move |ctx, rng| {
            let mut cfg = random_sdd_cfg(rng, 6, true);
            cfg.nops = rng.range(5, 70);
            let ops = gen_sdd_history(cfg.n, cfg.nops, rng);
            let _g = crate::gen::LabelMapGuard::new(crate::gen::random_label_map(cfg.n, rng));
            ctx.count("histories_over_spread_labels", 1);
            run_sdd_history(ctx, &cfg, &ops, &c2);
        });
    }
    for case in ctx.cases("rand", 1500, true) {
        let c2 = checks.clone();
        ctx.run_case("rand", case, move |ctx, rng| {
            let mut cfg = random_sdd_cfg(rng, 6, true);
            cfg.nops = rng.range(5, 70);
            let ops = gen_sdd_history(cfg.n, cfg.nops, rng);
            run_sdd_history(ctx, &cfg, &ops, &c2);
        });
    }
    // compression off: structural Ord on SddPtr is exponential, so keep these tiny
    for case in ctx.cases("uncompressed", 600, true) {
        let c2 = checks.clone();
        ctx.run_case("uncompressed", case, move |ctx, rng| {
            let mut cfg = random_sdd_cfg(rng, 5, false);
            cfg.nops = rng.range(4, 16);
            let ops = gen_sdd_history(cfg.n, cfg.nops, rng);
            run_sdd_history(ctx, &cfg, &ops, &c2);
        });
    }
    for case in ctx.cases("long", 16, true) {
        let c2 = checks.clone();
        ctx.run_case("long", case, move |ctx, rng| {
            let mut cfg = random_sdd_cfg(rng, 8, true);
            cfg.n = usize::max(cfg.n, 5);
            let (fam, vt) = crate::gen::random_vtree(cfg.n, rng);
            cfg.vtree = vt;
            cfg.family = fam.into();
            cfg.nops = rng.range(300, 700);
            let ops = gen_sdd_history(cfg.n, cfg.nops, rng);
            run_sdd_history(ctx, &cfg, &ops, &c2);
        });
    }
}

fn exhaustive3(ctx: &mut Ctx, vt: &Vt, block: usize) {
    let n = 3;
    crate::caps::set_unique(Some(16));
    let builder = CompressionSddBuilder::new(vt.to_rsdd());
    crate::caps::reset();
    let b = &builder;
    let mut w = SddWalker::new(n);
    let mut fs: Vec<(SddPtr, Tt)> = Vec::with_capacity(256);
    for code in 0..256u64 {
        let t = Tt { n, w: vec![code] };
        let p = sdd_from_tt(b, &t, 0);
        if w.tt(p) != t {
            ctx.violation("sdd.exh3.build", "construction by Shannon expansion gives a wrong function",
                json!({"function": t.hex(), "vtree": vt.to_json()}));
        }
        ctx.case_eval(None);
        fs.push((p, t));
    }
    let mut check = |ctx: &mut Ctx, name: &str, got: SddPtr, exp: Tt, desc: serde_json::Value| {
        let g = w.tt(got);
        let key = if exp.is_trivial() { None } else {
            Some(crate::rng::mix(crate::rng::hash_str(name) ^ crate::rng::hash_str(&desc.to_string()) ^ crate::rng::hash_str(&vt.to_json().to_string())))
        };
        ctx.case_eval(key);
        if g != exp {
            ctx.violation(&format!("sdd.exh3.{}", name), &format!("{} wrong function", name),
                json!({"args": desc, "observed": g.hex(), "expected": exp.hex(), "vtree": vt.to_json()}));
        }
    };
    for fi in (block * 32)..(block * 32 + 32) {
        let (f, ft) = fs[fi].clone();
        check(ctx, "negate", b.negate(f), ft.not(), json!([fi]));
        for v in 0..n {
            for val in [false, true] {
                check(ctx, "condition", b.condition(f, VarLabel::new(v as u64), val), ft.cofactor(v, val), json!([fi, v, val]));
            }
            check(ctx, "exists", b.exists(f, VarLabel::new(v as u64)), ft.exists(v), json!([fi, v]));
        }
        for gi in 0..256 {
            let (g, gt) = fs[gi].clone();
            check(ctx, "and", b.and(f, g), ft.and(&gt), json!([fi, gi]));
            check(ctx, "or", b.or(f, g), ft.or(&gt), json!([fi, gi]));
            if gi % 8 == fi % 8 {
                check(ctx, "xor", b.xor(f, g), ft.xor(&gt), json!([fi, gi]));
                check(ctx, "iff", b.iff(f, g), ft.iff(&gt), json!([fi, gi]));
                let v = gi % n;
                check(ctx, "compose", b.compose(f, VarLabel::new(v as u64), g), ft.compose_doc(v, &gt), json!([fi, v, gi]));
                let hi = (gi * 7 + fi) % 256;
                let (h, ht) = fs[hi].clone();
                check(ctx, "ite", b.ite(f, g, h), ft.ite(&gt, &ht), json!([fi, gi, hi]));
            }
        }
    }
    let mut fresh = SddWalker::new(n);
    for (p, t) in fs.iter() {
        if fresh.tt(*p) != *t {
            ctx.violation("sdd.drift", "earlier result changed function", json!({"function": t.hex(), "vtree": vt.to_json()}));
            break;
        }
    }
    let (g, _, _) = rsdd::verif::take_counters();
    ctx.count("unique_table_grows", g);
    ctx.count("exh3_blocks", 1);
    let _ = f_is_neg(fs[0].0);
}

fn f_is_neg(p: SddPtr) -> bool {
    p.is_neg()
}
