//! C03 -- SDD operations compute exactly the Boolean function they name.
use crate::ctx::Ctx;
use crate::gen::Vt;
use crate::rng::all_perms;
use crate::sddhist::*;

pub fn run(ctx: &mut Ctx) {
    let checks = SddChecks {
        function: true,
        wellformed: false,
        record_canon: false,
        cold_replay_every: 0,
    };
    // exhaustive over vtrees: all 5 shapes x all 24 labellings on 4 leaves (+ 2x6 on 3), both
    // compression modes; a random history on each
    let mut vts: Vec<Vt> = Vec::new();
    for p in all_perms(4) {
        vts.extend(Vt::all_shapes(&p));
    }
    for p in all_perms(3) {
        vts.extend(Vt::all_shapes(&p));
    }
    let nv = vts.len() as u64; // 120 + 12
    for case in ctx.cases("allvtrees", nv * 2, false) {
        let vt = vts[(case / 2) as usize].clone();
        let compress = case % 2 == 0;
        let c2 = checks.clone();
        ctx.run_case("allvtrees", case, move |ctx, rng| {
            let n = vt.leaves().len();
            let cfg = SddCfg {
                n,
                vtree: vt,
                family: "enumerated".into(),
                compress,
                uniq_cap: Some(8),
                nops: if compress { 60 } else { 16 },
            };
            let ops = gen_sdd_history(n, cfg.nops, rng);
            run_sdd_history(ctx, &cfg, &ops, &c2);
        });
    }
    for case in ctx.cases("rand", 1500, true) {
        let c2 = checks.clone();
        ctx.run_case("rand", case, move |ctx, rng| {
            let mut cfg = random_sdd_cfg(rng, 6, true);
            cfg.nops = rng.range(5, 70);
            let ops = gen_sdd_history(cfg.n, cfg.nops, rng);
            run_sdd_history(ctx, &cfg, &ops, &c2);
        });
    }
    // compression off: structural Ord on SddPtr is exponential, so keep these tiny
    for case in ctx.cases("uncompressed", 600, true) {
        let c2 = checks.clone();
        ctx.run_case("uncompressed", case, move |ctx, rng| {
            let mut cfg = random_sdd_cfg(rng, 5, false);
            cfg.nops = rng.range(4, 16);
            let ops = gen_sdd_history(cfg.n, cfg.nops, rng);
            run_sdd_history(ctx, &cfg, &ops, &c2);
        });
    }
    for case in ctx.cases("long", 16, true) {
        let c2 = checks.clone();
        ctx.run_case("long", case, move |ctx, rng| {
            let mut cfg = random_sdd_cfg(rng, 8, true);
            cfg.n = usize::max(cfg.n, 5);
            let (fam, vt) = crate::gen::random_vtree(cfg.n, rng);
            cfg.vtree = vt;
            cfg.family = fam.into();
            cfg.nops = rng.range(300, 700);
            let ops = gen_sdd_history(cfg.n, cfg.nops, rng);
            run_sdd_history(ctx, &cfg, &ops, &c2);
        });
    }
}
