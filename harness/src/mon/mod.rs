use crate::ctx::Ctx;

pub mod c01;
pub mod c02;

pub fn dispatch(ctx: &mut Ctx) -> bool {
    match ctx.prop.clone().as_str() {
        "C01" => c01::run(ctx),
        "C02" => c02::run(ctx),
        _ => return false,
    }
    true
}
