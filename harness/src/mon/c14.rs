//! C14 -- orders, dtrees and vtrees derived from a formula are well formed.
use crate::ctx::Ctx;
use crate::gen::*;
use crate::rng::{all_perms, Rng};
use rsdd::repr::{Cnf, DTree, SddPtr, VTree, VTreeManager, VarLabel, VarOrder, VarSet};
use rsdd::util::btree::BTree;
use serde_json::{json, Value};
use std::collections::{BTreeSet, HashSet};

pub fn run(ctx: &mut Ctx) {
    for case in ctx.cases("orders", 800, true) {
        ctx.run_case("orders", case, orders_case);
    }
    // the formula without clauses: every heuristic returns the empty order.  FORCE runs in a
    // helper thread: if it does not come back the case is inconclusive (S14), never a violation
    for case in ctx.cases("empty_cnf", 1, false) {
        ctx.run_case("empty_cnf", case, |ctx, _rng| {
            let cnf = clauses_to_cnf(&Vec::new());
            let info = json!({"clauses": []});
            check_order(ctx, &cnf.linear_order(), 0, "linear", &info);
            check_order(ctx, &cnf.min_fill_order(), 0, "min_fill", &info);
            let (tx, rx) = std::sync::mpsc::channel();
            std::thread::spawn(move || {
                let c = rsdd::repr::Cnf::new(&[]);
                let o = c.force_order();
                let _ = tx.send(o.num_vars());
            });
            match rx.recv_timeout(std::time::Duration::from_secs(30)) {
                Ok(k) => {
                    ctx.count("force_on_the_clause_free_formula", 1);
                    if k != 0 {
                        ctx.violation("order.force", "FORCE order of the formula without clauses is not the empty order", json!({"num_vars": k}));
                    }
                }
                Err(_) => ctx.inconclusive("force_order on the formula without clauses did not return within 30 s (helper thread left running)"),
            }
            ctx.case_eval(None);
        });
    }
    for case in ctx.cases("dtree_small", 300, true) {
        // every elimination order for CNFs over <= 4 variables
        ctx.run_case("dtree_small", case, |ctx, rng| {
            let mut cl = gen(rng, 4);
            if rng.chance(1, 6) {
                let at = rng.below(cl.len() + 1);
                cl.insert(at, vec![]);
                ctx.count("dtree_inputs_with_an_empty_clause", 1);
            }
            let n = clauses_num_vars(&cl);
            for p in all_perms(n) {
                dtree_case(ctx, &cl, &p, "all");
            }
        });
    }
    for case in ctx.cases("dtree", 1200, true) {
        ctx.run_case("dtree", case, |ctx, rng| {
            let mut cl = gen(rng, 12);
            // an empty clause is a clause too: it has to be a leaf (with no variables) like any other
            if rng.chance(1, 6) {
                let at = rng.below(cl.len() + 1);
                cl.insert(at, vec![]);
                ctx.count("dtree_inputs_with_an_empty_clause", 1);
            }
            let n = clauses_num_vars(&cl);
            let cnf = clauses_to_cnf(&cl);
            let (name, perm): (&str, Vec<usize>) = match rng.below(4) {
                0 => ("linear", (0..n).collect()),
                1 => ("min_fill", order_to_perm(&cnf.min_fill_order())),
                2 => ("force", order_to_perm(&cnf.force_order())),
                _ => ("random", rng.perm(n)),
            };
            dtree_case(ctx, &cl, &perm, name);
        });
    }
    // vtree manager: every shape on <= 6 leaves (random labelling), random shapes up to 12
    let mut shapes: Vec<Vt> = Vec::new();
    for k in 1..=6usize {
        shapes.extend(Vt::all_shapes(&(0..k).collect::<Vec<_>>()));
    }
    let ns = shapes.len() as u64;
    for case in ctx.cases("vtree_shapes", ns, false) {
        let shape = shapes[case as usize].clone();
        ctx.run_case("vtree_shapes", case, move |ctx, rng| {
            let k = shape.leaves().len();
            let perm = rng.perm(k);
            let vt = relabel(&shape, &perm);
            manager_case(ctx, &vt);
            ctx.count("shapes_enumerated", 1);
        });
    }
    for case in ctx.cases("vtree_rand", 400, true) {
        ctx.run_case("vtree_rand", case, |ctx, rng| {
            // mostly up to 12 leaves; now and then a large tree (up to 90 leaves, 179 nodes) so that
            // the Euler-tour / segment-tree arithmetic of the lca structure meets deeper levels
            let k = if rng.chance(1, 25) { rng.range(30, 90) } else { rng.range(1, 12) };
            if k > 12 {
                ctx.count("large_vtrees", 1);
            }
            let (_, vt) = random_vtree(k, rng);
            manager_case(ctx, &vt);
        });
    }
    // vtrees made by the library's own constructors over label lists with gaps and in any
    // order: every given variable is exactly one leaf; the manager agrees with the shape
    for case in ctx.cases("vtree_ctor", 400, true) {
        ctx.run_case("vtree_ctor", case, ctor_case);
    }
}

fn from_rsdd(t: &VTree) -> Vt {
    if t.is_leaf() {
        Vt::Leaf(t.extract_leaf().value_usize())
    } else {
        Vt::Node(Box::new(from_rsdd(t.left())), Box::new(from_rsdd(t.right())))
    }
}

fn ctor_case(ctx: &mut Ctx, rng: &mut Rng) {
    let k = rng.range(1, 12);
    let dense = rng.chance(1, 3);
    let mut universe: Vec<usize> = (0..(if dense { k } else { 2 * k + 3 })).collect();
    rng.shuffle(&mut universe);
    let labels: Vec<usize> = universe[..k].to_vec();
    let lbls: Vec<VarLabel> = labels.iter().map(|x| VarLabel::new(*x as u64)).collect();
    let kind = rng.below(4);
    let (name, tree) = match kind {
        0 => ("right_linear".to_string(), VTree::right_linear(&lbls)),
        1 => ("left_linear".to_string(), VTree::left_linear(&lbls)),
        2 => {
            // S9: even_split(order, s) needs at least 2^s labels
            let mut s = 0;
            while (1usize << (s + 1)) <= k && rng.chance(2, 3) {
                s += 1;
            }
            (format!("even_split/{}", s), VTree::even_split(&lbls, s))
        }
        _ => {
            let bias = [0.0, 0.25, 0.5, 0.9][rng.below(4)];
            (format!("rand_split/{}", bias), VTree::rand_split(&lbls, bias))
        }
    };
    ctx.count("library_constructed_vtrees", 1);
    ctx.seen("vtree_constructors", name.split('/').next().unwrap());
    let vt = from_rsdd(&tree);
    let info = json!({"constructor": name, "labels": labels, "vtree": vt.to_json()});
    let mut got = vt.leaves();
    got.sort();
    let mut want = labels.clone();
    want.sort();
    if got != want {
        ctx.violation("vtree.ctor.leaves", "a library-constructed vtree does not contain every given variable as exactly one leaf", json!({"input": info}));
        return;
    }
    let flat: Vec<usize> = VTree::flatten_vtree(&tree).iter().map(|l| l.value_usize()).collect();
    if flat != vt.leaves() || !VTree::is_valid_vtree(&tree) || !tree.contains_leaf(&|l: &VarLabel| l.value_usize() == labels[0])
        || tree.contains_leaf(&|l: &VarLabel| !labels.contains(&l.value_usize()))
    {
        ctx.violation("vtree.ctor.flatten", "flatten_vtree / is_valid_vtree / contains_leaf disagree with the leaves of the tree", json!({"input": info}));
    }
    if k >= 2 {
        // a tree with a repeated leaf is not valid
        let dup = VTree::new_node(Box::new(tree.clone()), Box::new(VTree::new_leaf(lbls[rng.below(k)])));
        if VTree::is_valid_vtree(&dup) {
            ctx.violation("vtree.ctor.valid", "is_valid_vtree accepts a tree with a repeated variable", json!({"input": info}));
        }
    }
    manager_case_opt(ctx, &vt, dense);
}

fn gen(rng: &mut Rng, max_vars: usize) -> Clauses {
    loop {
        let mv = rng.range(1, max_vars);
        let st = CnfStyle {
            max_vars: mv,
            max_clauses: rng.range(1, 2 * mv + 2),
            max_width: rng.range(1, 4),
            allow_empty_clause: false,
            allow_empty_cnf: false,
            allow_taut: rng.chance(1, 4),
            allow_dup: rng.chance(1, 3),
        };
        let mut cl = random_clauses(&st, rng);
        cl.retain(|c| !c.is_empty());
        if rng.chance(1, 3) {
            // unused variable indices: shift some labels up
            let gap = rng.range(1, 2);
            for c in cl.iter_mut() {
                for l in c.iter_mut() {
                    if l.0 >= mv / 2 {
                        l.0 += gap;
                    }
                }
            }
        }
        if max_vars >= 8 && rng.chance(1, 5) && !cl.is_empty() {
            // wide: the occurring variables are spread over up to 200 labels (most indices
            // unused), so that variable sets span several machine words
            let nv = clauses_num_vars(&cl);
            let top = *rng.pick(&[66usize, 70, 129, 140, 200]);
            let mut pool: Vec<usize> = (0..top).collect();
            rng.shuffle(&mut pool);
            let mut lab: Vec<usize> = pool[..nv].to_vec();
            if rng.bool() {
                lab.sort();
            }
            // keep the word boundaries in play
            for (i, b) in [63usize, 64, 127, 128].iter().enumerate() {
                if *b < top && i < nv && rng.bool() && !lab.contains(b) {
                    lab[i] = *b;
                }
            }
            for c in cl.iter_mut() {
                for l in c.iter_mut() {
                    l.0 = lab[l.0];
                }
            }
            return cl;
        }
        if !cl.is_empty() && clauses_num_vars(&cl) <= max_vars + 2 {
            return cl;
        }
    }
}

fn relabel(t: &Vt, perm: &[usize]) -> Vt {
    match t {
        Vt::Leaf(v) => Vt::Leaf(perm[*v]),
        Vt::Node(l, r) => Vt::Node(Box::new(relabel(l, perm)), Box::new(relabel(r, perm))),
    }
}

fn order_to_perm(o: &VarOrder) -> Vec<usize> {
    (0..o.num_vars()).map(|l| o.var_at_level(l).value_usize()).collect()
}

/// position and label maps mutually inverse, permutation of 0..n
fn check_order(ctx: &mut Ctx, o: &VarOrder, n: usize, what: &str, info: &Value) {
    ctx.count("orders_checked", 1);
    ctx.seen("order_kinds", what);
    let mut bad: Option<String> = None;
    if o.num_vars() != n {
        bad = Some(format!("num_vars {} != {}", o.num_vars(), n));
    } else {
        let mut seen = HashSet::new();
        for lvl in 0..n {
            let v = o.var_at_level(lvl);
            if v.value_usize() >= n || !seen.insert(v.value_usize()) {
                bad = Some(format!("level {} holds variable {} (out of range or repeated)", lvl, v.value()));
                break;
            }
            if o.get(v) != lvl {
                bad = Some(format!("get(var_at_level({})) = {}", lvl, o.get(v)));
                break;
            }
        }
        if bad.is_none() {
            for v in 0..n {
                let l = o.get(VarLabel::new(v as u64));
                if l >= n || o.var_at_level(l).value_usize() != v {
                    bad = Some(format!("var_at_level(get({})) != {}", v, v));
                    break;
                }
            }
        }
        if bad.is_none() {
            for lvl in 0..n {
                let v = o.var_at_level(lvl);
                let above = if lvl == 0 { None } else { Some(o.var_at_level(lvl - 1)) };
                let below = if lvl + 1 == n { None } else { Some(o.var_at_level(lvl + 1)) };
                if o.above(v) != above || o.below(v) != below {
                    bad = Some(format!("above/below of the variable at level {}", lvl));
                }
            }
            if n > 0 && o.last_var() != o.var_at_level(n - 1) {
                bad = Some("last_var".into());
            }
            let rev: Vec<usize> = o.reverse_in_order_iter().map(|x| x.value_usize()).collect();
            let mut fwd: Vec<usize> = o.in_order_iter().map(|x| x.value_usize()).collect();
            fwd.reverse();
            if rev != fwd {
                bad = Some("reverse_in_order_iter".into());
            }
        }
        if bad.is_none() {
            let it: Vec<usize> = o.in_order_iter().map(|x| x.value_usize()).collect();
            if it != order_to_perm(o) {
                bad = Some("in_order_iter disagrees with var_at_level".into());
            }
            for a in 0..n {
                for b in 0..n {
                    let (la, lb) = (VarLabel::new(a as u64), VarLabel::new(b as u64));
                    if o.lt(la, lb) != (o.get(la) < o.get(lb)) || o.lte(la, lb) != (o.get(la) <= o.get(lb)) {
                        bad = Some("lt/lte disagree with positions".into());
                    }
                }
            }
        }
    }
    if let Some(why) = bad {
        ctx.violation(&format!("order.{}", what), "order is not a permutation with mutually inverse maps",
            json!({"why": why, "order": format!("{}", o), "input": info}));
    }
}

fn orders_case(ctx: &mut Ctx, rng: &mut Rng) {
    let mut cl = gen(rng, 12);
    // a CNF may contain an empty clause (Cnf::condition produces them): every order heuristic
    // must still return a permutation of the variables
    if rng.chance(1, 6) {
        let at = rng.below(cl.len() + 1);
        cl.insert(at, Vec::new());
        ctx.count("order_inputs_with_an_empty_clause", 1);
    }
    let n = clauses_num_vars(&cl);
    let cnf = clauses_to_cnf(&cl);
    let info = json!({"clauses": clauses_json(&cl)});
    ctx.case_eval(Some(crate::rng::hash_str(&info.to_string())));
    check_order(ctx, &cnf.linear_order(), n, "linear", &info);
    check_order(ctx, &VarOrder::linear_order(n), n, "linear", &info);
    check_order(ctx, &cnf.min_fill_order(), n, "min_fill", &info);
    check_order(ctx, &cnf.force_order(), n, "force", &info);
    let perm = rng.perm(n);
    let mut o = VarOrder::new(&perm.iter().map(|x| VarLabel::new(*x as u64)).collect::<Vec<_>>());
    check_order(ctx, &o, n, "explicit", &info);
    if order_to_perm(&o) != perm {
        ctx.violation("order.explicit", "VarOrder::new does not place the labels at the given levels", json!({"perm": perm}));
    }
    // run-time extension
    for k in 1..=rng.range(1, 4) {
        let l = o.new_last();
        if l.value_usize() != n + k - 1 || o.last_var() != l {
            ctx.violation("order.new_last", "new_last does not return the next label at the last level",
                json!({"returned": l.value(), "expected": n + k - 1}));
        }
        check_order(ctx, &o, n + k, "new_last", &info);
        if order_to_perm(&o)[..n] != perm[..] {
            ctx.violation("order.new_last", "new_last disturbed the existing levels", json!({"perm": perm}));
        }
    }
    if ctx.wants_sample() {
        ctx.sample(json!({"regime": "orders", "input": info, "min_fill": format!("{}", cnf.min_fill_order()), "force": format!("{}", cnf.force_order())}));
    }
}

fn set_of(v: &VarSet) -> BTreeSet<usize> {
    v.iter().map(|x| x.value_usize()).collect()
}

/// recompute vars / cutsets by the definitions and compare with the stored ones;
/// collects the leaves' clauses
fn walk_dtree(ctx: &mut Ctx, t: &DTree, ancestors: &BTreeSet<usize>, leaves: &mut Vec<Vec<(usize, bool)>>, info: &Value) -> BTreeSet<usize> {
    match t {
        DTree::Leaf { clause, cutset, vars } => {
            let c: Vec<(usize, bool)> = clause.iter().map(|l| (l.label().value_usize(), l.polarity())).collect();
            let vs: BTreeSet<usize> = c.iter().map(|x| x.0).collect();
            leaves.push(c);
            ctx.count("dtree_nodes", 1);
            if set_of(vars) != vs {
                ctx.violation("dtree.leaf_vars", "leaf variable set is not the clause's variables",
                    json!({"stored": set_of(vars), "expected": vs, "input": info}));
            }
            let exp: BTreeSet<usize> = vs.difference(ancestors).cloned().collect();
            if set_of(cutset) != exp {
                ctx.violation("dtree.leaf_cutset", "leaf cutset is not (clause variables minus ancestor cutsets)",
                    json!({"stored": set_of(cutset), "expected": exp, "input": info}));
            }
            vs
        }
        DTree::Node { l, r, cutset, vars } => {
            ctx.count("dtree_nodes", 1);
            // children first need the cutset of this node: compute child vars structurally
            let lv = vars_of(l);
            let rv = vars_of(r);
            let inter: BTreeSet<usize> = lv.intersection(&rv).cloned().collect();
            let exp_cut: BTreeSet<usize> = inter.difference(ancestors).cloned().collect();
            if set_of(cutset) != exp_cut {
                ctx.violation("dtree.cutset", "cutset is not (vars(l) & vars(r)) minus ancestor cutsets",
                    json!({"stored": set_of(cutset), "expected": exp_cut, "input": info}));
            }
            let uni: BTreeSet<usize> = lv.union(&rv).cloned().collect();
            if set_of(vars) != uni {
                ctx.violation("dtree.vars", "vars(node) is not vars(l) | vars(r)",
                    json!({"stored": set_of(vars), "expected": uni, "input": info}));
            }
            let mut anc = ancestors.clone();
            anc.extend(exp_cut.iter().cloned());
            walk_dtree(ctx, l, &anc, leaves, info);
            walk_dtree(ctx, r, &anc, leaves, info);
            uni
        }
    }
}

fn vars_of(t: &DTree) -> BTreeSet<usize> {
    match t {
        DTree::Leaf { clause, .. } => clause.iter().map(|l| l.label().value_usize()).collect(),
        DTree::Node { l, r, .. } => {
            let mut a = vars_of(l);
            a.extend(vars_of(r));
            a
        }
    }
}

fn dtree_case(ctx: &mut Ctx, cl: &Clauses, perm: &[usize], oname: &str) {
    let cnf: Cnf = clauses_to_cnf(cl);
    let eo = VarOrder::new(&perm.iter().map(|x| VarLabel::new(*x as u64)).collect::<Vec<_>>());
    let info = json!({"clauses": clauses_json(cl), "elim": perm, "elim_kind": oname});
    let dt = DTree::from_cnf(&cnf, &eo);
    ctx.count("dtrees", 1);
    ctx.seen("elim_kinds", oname);
    ctx.case_eval(Some(crate::rng::hash_str(&info.to_string())));
    let mut leaves = Vec::new();
    walk_dtree(ctx, &dt, &BTreeSet::new(), &mut leaves, &info);
    // leaves == the CNF's clauses (as a multiset, in rsdd's normalised form)
    let mut want: Vec<Vec<(usize, bool)>> = cnf
        .clauses()
        .iter()
        .map(|c| c.iter().map(|l| (l.label().value_usize(), l.polarity())).collect())
        .collect();
    let mut have = leaves.clone();
    want.sort();
    have.sort();
    if want != have {
        ctx.violation("dtree.leaves", "dtree leaves are not exactly the CNF's clauses",
            json!({"leaves": have.len(), "clauses": want.len(), "input": info}));
    }
    // components: more than one connected component exercises the final composition
    let allv: BTreeSet<usize> = cl.iter().flat_map(|c| c.iter().map(|x| x.0)).collect();
    // vtree from the dtree: every occurring variable exactly once
    match VTree::from_dtree(&dt) {
        None => {
            if !allv.is_empty() {
                ctx.violation("vtree.from_dtree.none", "no vtree although the CNF has variables", json!({"input": info}));
            }
        }
        Some(vt) => {
            ctx.count("vtrees_from_dtree", 1);
            // own traversal of the public tree type (not the library's flatten helper)
            let lv: Vec<usize> = crate::sddhist::vtree_vars(&vt);
            let ls: BTreeSet<usize> = lv.iter().cloned().collect();
            if ls.len() != lv.len() || ls != allv {
                ctx.violation("vtree.from_dtree.leaves", "dtree-derived vtree does not contain every CNF variable exactly once",
                    json!({"leaves": lv, "variables": allv, "input": info}));
            }
        }
    }
    if ctx.wants_sample() {
        ctx.sample(json!({"regime": "dtree", "input": info, "leaves": leaves.len()}));
    }
}

fn same_tree(a: &VTree, b: &Vt) -> bool {
    match (a, b) {
        (BTree::Leaf(x), Vt::Leaf(y)) => x.value_usize() == *y,
        (BTree::Node(_, l, r), Vt::Node(l2, r2)) => same_tree(l, l2) && same_tree(r, r2),
        _ => false,
    }
}

fn manager_case(ctx: &mut Ctx, vt: &Vt) {
    manager_case_opt(ctx, vt, true)
}

/// `dense`: the labels are a permutation of 0..k (only then is the variable count compared, S12)
fn manager_case_opt(ctx: &mut Ctx, vt: &Vt, dense: bool) {
    let man = VTreeManager::new(vt.to_rsdd());
    let nodes = vt.inorder();
    let m = nodes.len();
    let info = json!({"vtree": vt.to_json()});
    ctx.count("managers", 1);
    ctx.case_eval(Some(crate::rng::hash_str(&info.to_string())));
    // reference structure: index ranges of the subtree of every in-order index
    // (a subtree occupies a contiguous in-order range)
    fn ranges(t: &Vt, start: usize, out: &mut Vec<(usize, usize, usize)>) -> usize {
        // returns size; pushes (index, lo, hi) with hi exclusive
        match t {
            Vt::Leaf(_) => {
                out.push((start, start, start + 1));
                1
            }
            Vt::Node(l, r) => {
                let ls = ranges(l, start, out);
                let me = start + ls;
                let rs = ranges(r, me + 1, out);
                out.push((me, start, me + 1 + rs));
                ls + 1 + rs
            }
        }
    }
    let mut rg = Vec::new();
    ranges(vt, 0, &mut rg);
    rg.sort();
    // index arithmetic: vtree(idx) is the in-order node, var_index finds each leaf
    // obtain VTreeIndex values through the public API: var_index for leaves, lca for internal nodes
    let mut handle: Vec<Option<rsdd::repr::VTreeIndex>> = vec![None; m];
    for (i, nd) in nodes.iter().enumerate() {
        if let Vt::Leaf(v) = nd {
            let h = man.var_index(VarLabel::new(*v as u64));
            if h.value() != i {
                ctx.violation("vtree.var_index", "var_index is not the in-order index of the leaf",
                    json!({"label": v, "got": h.value(), "expected": i, "input": info}));
            }
            handle[h.value().min(m - 1)] = Some(h);
        }
    }
    // internal node i = lca of its leftmost and rightmost leaf
    for (i, lo, hi) in rg.iter() {
        if handle[*i].is_none() {
            if let (Some(a), Some(b)) = (handle[*lo], handle[*hi - 1]) {
                let h = man.lca(a, b);
                if h.value() != *i {
                    ctx.violation("vtree.lca", "lca of the outermost leaves of a subtree is not its root",
                        json!({"a": lo, "b": hi - 1, "got": h.value(), "expected": i, "input": info}));
                    return;
                }
                handle[*i] = Some(h);
            }
        }
    }
    if handle.iter().any(|h| h.is_none()) {
        ctx.violation("vtree.index", "could not reach every vtree node through var_index/lca", json!({"input": info}));
        return;
    }
    let h: Vec<rsdd::repr::VTreeIndex> = handle.into_iter().map(|x| x.unwrap()).collect();
    for i in 0..m {
        if !same_tree(man.vtree(h[i]), nodes[i]) {
            ctx.violation("vtree.lookup", "vtree(idx) is not the sub-vtree at that in-order position",
                json!({"index": i, "input": info}));
        }
    }
    // lca for all pairs against the range-based reference (smallest subtree containing both)
    for i in 0..m {
        for j in 0..m {
            ctx.count("lca_pairs", 1);
            let mut best: Option<(usize, usize)> = None; // (size, index)
            for (k, lo, hi) in rg.iter() {
                if *lo <= i && i < *hi && *lo <= j && j < *hi {
                    let sz = hi - lo;
                    if best.map(|b| sz < b.0).unwrap_or(true) {
                        best = Some((sz, *k));
                    }
                }
            }
            let exp = best.unwrap().1;
            let got = man.lca(h[i], h[j]).value();
            if got != exp {
                ctx.violation("vtree.lca", "least common ancestor disagrees with the tree shape",
                    json!({"a": i, "b": j, "got": got, "expected": exp, "input": info}));
                return;
            }
        }
    }
    // prime/sub relation: everything in the left subtree is prime to the node, the node
    // is prime to everything in its right subtree
    for (k, lo, hi) in rg.iter() {
        for d in *lo..*hi {
            if d == *k {
                continue;
            }
            let left = d < *k;
            let ok = if left {
                man.is_prime_index(h[d], h[*k]) && !man.is_prime_index(h[*k], h[d])
            } else {
                man.is_prime_index(h[*k], h[d]) && !man.is_prime_index(h[d], h[*k])
            };
            if !ok {
                ctx.violation("vtree.is_prime", "prime/sub relation disagrees with left/right position",
                    json!({"node": k, "descendant": d, "input": info}));
            }
        }
    }
    // the same relation through variables and pointers
    let lv = vt.leaves();
    for a in &lv {
        for b in &lv {
            let ia = nodes.iter().position(|x| **x == Vt::Leaf(*a)).unwrap();
            let ib = nodes.iter().position(|x| **x == Vt::Leaf(*b)).unwrap();
            let (la, lb) = (VarLabel::new(*a as u64), VarLabel::new(*b as u64));
            if man.is_prime_var(la, lb) != (ia < ib) || man.is_prime(SddPtr::Var(la, true), SddPtr::Var(lb, false)) != (ia < ib) {
                ctx.violation("vtree.is_prime_var", "is_prime_var / is_prime disagree with leaf positions",
                    json!({"a": a, "b": b, "input": info}));
            }
        }
    }
    // variable count (labels are a permutation of 0..k here, S12)
    let k = lv.len();
    if !dense {
        ctx.count("managers_over_label_sets_with_gaps", 1);
    } else if man.num_vars() != k {
        ctx.violation("vtree.num_vars", "VTreeManager::num_vars is not the number of variables",
            json!({"got": man.num_vars(), "expected": k, "input": info}));
    }
    if dense && vt.to_rsdd().num_vars() != k {
        ctx.violation("vtree.num_vars_tree", "VTree::num_vars is not the number of variables",
            json!({"got": vt.to_rsdd().num_vars(), "expected": k, "input": info}));
    }
    ctx.seen("vtree_shapes", &vt.shape_string());
    if ctx.wants_sample() {
        ctx.sample(json!({"regime": "vtree", "input": info, "nodes": m}));
    }
}
