//! C08 -- smoothing keeps the function and makes counting exact for any weights.
use crate::bddhist::{CacheKind, HistCfg, Robdd};
use crate::ctx::Ctx;
use crate::exact::Dy;
use crate::mon::c07::{bdd_from_tt, interesting_function};
use crate::rng::{all_perms, Rng};
use crate::semi::*;
use crate::tt::Tt;
use crate::walk::{bdd_canon_string, BddWalker};
use crate::with_robdd;
use rsdd::constants::primes;
use rsdd::repr::{BddNode, BddPtr, DDNNFPtr};
use serde_json::{json, Value};
use std::collections::HashSet;

pub fn run(ctx: &mut Ctx) {
    // exhaustive: all functions of 3 variables x all 6 orders (x regular / complemented root by construction)
    for case in ctx.cases("exh3", 6, false) {
        ctx.run_case("exh3", case, |ctx, rng| {
            let order = all_perms(3)[case as usize].clone();
            for code in 0..256u64 {
                let t = Tt { n: 3, w: vec![code] };
                one(ctx, rng, &t, &order, 3, "exh3");
            }
            ctx.count("exh3_orders", 1);
        });
    }
    for case in ctx.cases("rand", 1500, true) {
        ctx.run_case("rand", case, |ctx, rng| {
            let n = rng.range(1, 8);
            let order = rng.perm(n);
            // smooth over the first k levels; the function only mentions those levels (S9)
            let k = if rng.chance(1, 3) { rng.range(0, n) } else { n };
            let (_, mut t) = interesting_function(n, rng);
            // make it skip levels at the top, in the middle and at the bottom
            for _ in 0..rng.below(3) {
                let lvl = match rng.below(3) {
                    0 => 0,
                    1 => n / 2,
                    _ => n - 1,
                };
                t = t.cofactor(order[lvl], rng.bool());
            }
            // mostly functions over the first k levels only (then the counts are checked too);
            // sometimes the function also mentions deeper levels: then only "same function"
            // and "each of the first k levels exactly once, in order, on every path" apply
            if !rng.chance(1, 4) {
                for lvl in k..n {
                    t = t.cofactor(order[lvl], rng.bool());
                }
            }
            one(ctx, rng, &t, &order, k, "rand");
        });
    }
    // several smooth calls in one builder: functions sharing sub-diagrams, each smoothed over a
    // different number of levels (and the same function at a larger and at a smaller k)
    for case in ctx.cases("multi", 500, true) {
        ctx.run_case("multi", case, |ctx, rng| {
            let n = rng.range(2, 7);
            let order = rng.perm(n);
            let (_, base) = interesting_function(n, rng);
            let mut items: Vec<(Tt, usize)> = Vec::new();
            for _ in 0..rng.range(2, 6) {
                let k = rng.range(0, n);
                // a relative of the base function restricted to the first k levels
                let mut t = if rng.chance(1, 4) { interesting_function(n, rng).1 } else { base.clone() };
                for _ in 0..rng.below(2) {
                    t = t.cofactor(order[rng.below(n)], rng.bool());
                }
                for lvl in k..n {
                    t = t.cofactor(order[lvl], rng.bool());
                }
                // sometimes smooth the very same function again over more levels
                if rng.chance(1, 3) && k < n {
                    items.push((t.clone(), k));
                    items.push((t, rng.range(k, n)));
                } else {
                    items.push((t, k));
                }
            }
            many(ctx, rng, &items, &order, "multi");
        });
    }
}

/// every path must test var_at_level(0..k-1) exactly once and in order
fn check_paths(p: BddPtr, level: usize, k: usize, order: &[usize], seen: &mut HashSet<(usize, usize)>) -> Result<(), String> {
    if level == k {
        // below the smoothed prefix only variables of deeper levels may be tested
        return match p {
            BddPtr::PtrTrue | BddPtr::PtrFalse => Ok(()),
            BddPtr::Reg(nd) | BddPtr::Compl(nd) => {
                for x in crate::walk::bdd_nodes(BddPtr::Reg(nd)) {
                    if order[..k].contains(&x.var.value_usize()) {
                        return Err(format!("a path tests variable {} again below the {} smoothed levels", x.var.value(), k));
                    }
                }
                Ok(())
            }
        };
    }
    match p {
        BddPtr::PtrTrue | BddPtr::PtrFalse => Err(format!("a path reaches a constant after {} of {} levels (level {} = variable {} untested)", level, k, level, order[level])),
        BddPtr::Reg(nd) | BddPtr::Compl(nd) => {
            if nd.var.value_usize() != order[level] {
                return Err(format!("at level {} a path tests variable {} instead of {}", level, nd.var.value(), order[level]));
            }
            let key = (nd as *const BddNode as usize, level);
            if !seen.insert(key) {
                return Ok(());
            }
            check_paths(nd.low, level + 1, k, order, seen)?;
            check_paths(nd.high, level + 1, k, order, seen)
        }
    }
}

fn count_check<'a, S: OSr>(ctx: &mut Ctx, sm: BddPtr<'a>, t: &Tt, w: &[(S, S)], sub: &str, info: &Value) {
    if !float_exact(w) {
        ctx.count("skipped_not_exactly_representable", 1);
        return;
    }
    let got = sm.unsmoothed_wmc(&params::<S>(w));
    let exp = full_sum(t, w);
    ctx.count(&format!("counts_{}", S::NAME), 1);
    if !exp.matches(&got) {
        ctx.violation(sub, "count of the smoothed diagram differs from the brute-force weighted sum",
            json!({"semiring": S::NAME, "observed": S::show_r(&got), "expected": exp.show(),
                "weights": w.iter().map(|(l, h)| json!([l.show(), h.show()])).collect::<Vec<_>>(), "input": info}));
    }
}

fn one(ctx: &mut Ctx, rng: &mut Rng, t: &Tt, order: &[usize], k: usize, regime: &str) {
    many(ctx, rng, &[(t.clone(), k)], order, regime);
}

/// all items are smoothed in ONE builder, in sequence (different functions that share nodes,
/// different numbers of levels): a `smooth` call must not depend on the earlier ones
fn many(ctx: &mut Ctx, rng: &mut Rng, items: &[(Tt, usize)], order: &[usize], regime: &str) {
    let n = items[0].0.n;
    let cfg = HistCfg {
        n0: n,
        max_new: 0,
        order: order.to_vec(),
        cache: if rng.bool() { CacheKind::All } else { CacheKind::Lru },
        uniq_cap: Some(64),
        lru_bits: Some(5),
        nops: 0,
    };
    with_robdd!(cfg, b, {
      for (idx, (t, k)) in items.iter().enumerate() {
        let k = *k;
        let p0 = bdd_from_tt(b, t, order, 0);
        if idx > 0 {
            ctx.count("smooth_calls_after_earlier_calls_in_the_same_builder", 2);
        }
        for (p, t) in [(p0, t.clone()), (p0.neg(), t.not())] {
            let mut w = BddWalker::new(n);
            if w.tt(p) != t {
                panic!("HARNESS: construction of the test diagram failed (C01's business)");
            }
            let sm = b.smooth_(p, k);
            let info = json!({"function": t.hex(), "order": order, "levels": k, "input_diagram": bdd_canon_string(p),
                "smoothed": bdd_canon_string(sm)});
            ctx.count("smooth_calls", 1);
            let skips = (0..k).filter(|l| !t.depends_on(order[*l])).count();
            if skips > 0 {
                ctx.count("inputs_skipping_levels", 1);
            }
            if matches!(p, BddPtr::Compl(_)) {
                ctx.count("complemented_roots", 1);
            }
            let key = crate::rng::mix(t.hash64() ^ crate::rng::hash_str(&format!("{:?}{}", order, k)));
            ctx.case_eval(if t.is_trivial() && skips == 0 { None } else { Some(key) });
            // same function
            let st = w.tt(sm);
            if st != t {
                ctx.violation("smooth.function", "smoothing changed the function", json!({"observed": st.hex(), "input": info}));
                continue;
            }
            // every path tests each of the first k levels exactly once, in order
            if let Err(why) = check_paths(sm, 0, k, order, &mut HashSet::new()) {
                ctx.violation("smooth.paths", "a path of the smoothed diagram does not test every level exactly once in order",
                    json!({"why": why, "input": info}));
                continue;
            }
            let deep = (k..n).any(|l| t.depends_on(order[l]));
            if deep {
                ctx.count("inputs_mentioning_deeper_levels", 1);
                continue;
            }
            // counts: arbitrary non-normalised small-integer weights; the variables beyond the
            // first k levels get (1, 0) so that they do not contribute
            let late: Vec<usize> = order[k..].to_vec();
            let mut wr: Vec<(OReal, OReal)> = (0..n).map(|_| (OReal(Dy::int(rng.range(1, 13) as i128)), OReal(Dy::int(rng.range(1, 13) as i128)))).collect();
            let mut wf: Vec<(OFf<{ primes::U64_LARGEST }>, OFf<{ primes::U64_LARGEST }>)> =
                (0..n).map(|_| OFf::<{ primes::U64_LARGEST }>::random_pair(rng, false)).collect();
            let mut wu: Vec<(OFf<{ primes::U64_LARGEST }>, OFf<{ primes::U64_LARGEST }>)> = (0..n).map(|_| (OFf(1), OFf(1))).collect();
            for v in &late {
                wr[*v] = (OReal(Dy::int(1)), OReal(Dy::int(0)));
                wf[*v] = (OFf(1), OFf(0));
                wu[*v] = (OFf(1), OFf(0));
            }
            count_check(ctx, sm, &t, &wr, "smooth.count.real", &info);
            count_check(ctx, sm, &t, &wf, "smooth.count.field", &info);
            // unit weights: the number of models over the k smoothed variables
            let got = sm.unsmoothed_wmc(&params(&wu));
            let models_k = t.count() >> (n - k);
            ctx.count("model_counts", 1);
            if got.value() != models_k as u128 {
                ctx.violation("smooth.modelcount", "unweighted count of the smoothed diagram is not the number of models",
                    json!({"observed": got.value().to_string(), "expected": models_k, "input": info}));
            }
            if ctx.wants_sample() {
                ctx.sample(json!({"regime": regime, "input": info}));
            }
        }
      }
    });
}
