//! C01 -- BDD operations compute exactly the Boolean function they name.
use crate::bddhist::*;
use crate::ctx::Ctx;
use crate::rng::all_perms;
use crate::tt::Tt;
use crate::walk::BddWalker;
use crate::with_robdd;
use rsdd::builder::BottomUpBuilder;
use rsdd::repr::{BddPtr, VarLabel};
use serde_json::json;

pub fn run(ctx: &mut Ctx) {
    let checks = Checks {
        function: true,
        std_triple: true,
        canon: false,
        record_canon: false,
        keep_ptrs: false,
    };
    // ---- regime exh3: exhaustive over all functions of <= 3 variables
    // case = order(6) x cache(2) x block(8 blocks of 32 functions)
    for case in ctx.cases("exh3", 96, false) {
        ctx.run_case("exh3", case, |ctx, _rng| exhaustive3(ctx, case));
    }
    // ---- regime rand: many short histories, n <= 6
    for case in ctx.cases("rand", 2500, true) {
        let c2 = checks.clone();
        ctx.run_case("rand", case, move |ctx, rng| {
            let hostile = rng.chance(1, 2);
            let mut cfg = random_cfg(rng, 6, hostile);
            cfg.nops = rng.range(5, 80);
            let ops = gen_history(&cfg, rng);
            run_history(ctx, &cfg, &ops, &c2);
        });
    }
    // ---- regime wide: the same histories in a manager of up to 200 variables: the history's own
    // variables are spread over the labels (64/128 boundaries included), the rest are unused
    for case in ctx.cases("wide", 400, true) {
        let c2 = checks.clone();
        ctx.run_case("wide", case, move |ctx, rng| {
            let hostile = rng.chance(1, 2);
            let mut cfg = random_cfg(rng, 6, hostile);
            cfg.nops = rng.range(5, 80);
            let ops = gen_history(&cfg, rng);
            let _g = crate::gen::LabelMapGuard::new(crate::gen::random_label_map(cfg.n0, rng));
            ctx.count("histories_over_spread_labels", 1);
            run_history(ctx, &cfg, &ops, &c2);
        });
    }
    // ---- regime weak_hash: fault injection on hash quality (hooks H6/H7): node hashes fall into a
    // few classes and the lossy cache's triple hashes into 1-17 classes; every operation must
    // still compute its function
    for case in ctx.cases("weak_hash", 400, true) {
        let c2 = checks.clone();
        ctx.run_case("weak_hash", case, move |ctx, rng| {
            let mut cfg = random_cfg(rng, 6, true);
            cfg.nops = rng.range(5, 60);
            let ops = gen_history(&cfg, rng);
            let w = crate::caps::WeakHash::new(Some(crate::caps::weak_classes(rng, &ctx.profile.clone(), false)), Some(*rng.pick(&[1u64, 2, 5, 17])));
            run_history(ctx, &cfg, &ops, &c2);
            ctx.count("histories_with_weak_hashes", 1);
            ctx.count("unique_table_hash_clashes", w.clashes());
        });
    }
    // ---- regime long: few long hostile histories, n <= 10, tiny tables
    for case in ctx.cases("long", 16, true) {
        let c2 = checks.clone();
        ctx.run_case("long", case, move |ctx, rng| {
            let mut cfg = random_cfg(rng, 10, true);
            cfg.nops = rng.range(800, 2000);
            let ops = gen_history(&cfg, rng);
            run_history(ctx, &cfg, &ops, &c2);
        });
    }
    // ---- regime default: library-default table and cache sizes (thorough only)
    if ctx.tier == "thorough" || ctx.only.is_some() {
        for case in ctx.cases("default", 16, false) {
            let c2 = checks.clone();
            ctx.run_case("default", case, move |ctx, rng| {
                let mut cfg = random_cfg(rng, 12, false);
                cfg.uniq_cap = None;
                cfg.lru_bits = None;
                cfg.nops = 1500;
                let ops = gen_history(&cfg, rng);
                run_history(ctx, &cfg, &ops, &c2);
            });
        }
    }
}

fn exhaustive3(ctx: &mut Ctx, case: u64) {
    let n = 3usize;
    let perms = all_perms(n);
    let order = perms[(case / 16) as usize].clone();
    let cache = if (case / 8) % 2 == 0 { CacheKind::All } else { CacheKind::Lru };
    let block = (case % 8) as usize;
    let cfg = HistCfg {
        n0: n,
        max_new: 0,
        order,
        cache,
        uniq_cap: Some(16),
        lru_bits: Some(3),
        nops: 0,
    };
    with_robdd!(cfg, b, {
        let mut walker = BddWalker::new(n);
        // all 256 functions, built by Shannon expansion with ite (each step checked)
        let mut fs: Vec<(BddPtr, Tt)> = Vec::with_capacity(256);
        for code in 0..256u64 {
            let t = Tt { n, w: vec![code] };
            let p = build(b, &t, 0, n);
            let got = walker.tt(p);
            ctx.case_eval(None);
            if got != t {
                ctx.violation("bdd.exh3.build", "shannon construction wrong",
                    json!({"function": t.hex(), "observed": got.hex(), "cfg": cfg.to_json()}));
            }
            fs.push((p, t));
        }
        let mut check = |ctx: &mut Ctx, name: &str, got: BddPtr, exp: Tt, desc: serde_json::Value| {
            let g = walker.tt(got);
            let key = if exp.is_trivial() { None } else {
                Some(crate::rng::mix(crate::rng::hash_str(name) ^ crate::rng::mix(desc.to_string().len() as u64 ^ crate::rng::hash_str(&desc.to_string())) ^ case))
            };
            ctx.case_eval(key);
            if g != exp {
                ctx.violation(&format!("bdd.exh3.{}", name), &format!("{} wrong function", name),
                    json!({"args": desc, "observed": g.hex(), "expected": exp.hex(), "cfg": cfg.to_json()}));
            }
        };
        let hstride = if ctx.tier == "thorough" { 1 } else { 16 };
        for fi in (block * 32)..(block * 32 + 32) {
            let (f, ft) = fs[fi].clone();
            for v in 0..n {
                for val in [false, true] {
                    check(ctx, "condition", b.condition(f, VarLabel::new(v as u64), val), ft.cofactor(v, val), json!([fi, v, val]));
                }
                check(ctx, "exists", b.exists(f, VarLabel::new(v as u64)), ft.exists(v), json!([fi, v]));
            }
            check(ctx, "negate", b.negate(f), ft.not(), json!([fi]));
            for gi in 0..256 {
                let (g, gt) = fs[gi].clone();
                check(ctx, "and", b.and(f, g), ft.and(&gt), json!([fi, gi]));
                check(ctx, "or", b.or(f, g), ft.or(&gt), json!([fi, gi]));
                check(ctx, "xor", b.xor(f, g), ft.xor(&gt), json!([fi, gi]));
                check(ctx, "iff", b.iff(f, g), ft.iff(&gt), json!([fi, gi]));
                let v = gi % n;
                check(ctx, "compose", b.compose(f, VarLabel::new(v as u64), g), ft.compose_doc(v, &gt), json!([fi, v, gi]));
                let mut hi = (fi + gi) % hstride;
                while hi < 256 {
                    let (h, ht) = fs[hi].clone();
                    check(ctx, "ite", b.ite(f, g, h), ft.ite(&gt, &ht), json!([fi, gi, hi]));
                    hi += hstride;
                }
            }
        }
        // history independence after the whole block
        let mut fresh = BddWalker::new(n);
        for (p, t) in fs.iter() {
            if fresh.tt(*p) != *t {
                ctx.violation("bdd.drift", "earlier result changed function", json!({"cfg": cfg.to_json(), "function": t.hex()}));
                break;
            }
        }
        let (g, lg, lc) = rsdd::verif::take_counters();
        ctx.count("unique_table_grows", g);
        ctx.count("lru_grows", lg);
        ctx.count("lru_overwrites", lc);
        ctx.count("exh3_blocks", 1);
        ctx.seen("orders_exh3", &format!("{:?}", cfg.order));
    });
}

fn build<'a, B: Robdd<'a>>(b: &'a B, t: &Tt, v: usize, n: usize) -> BddPtr<'a> {
    if t.is_true() {
        return BddPtr::PtrTrue;
    }
    if t.is_false() {
        return BddPtr::PtrFalse;
    }
    assert!(v < n, "HARNESS: non-constant function without variables");
    let hi = build(b, &t.cofactor(v, true), v + 1, n);
    let lo = build(b, &t.cofactor(v, false), v + 1, n);
    let x = b.var(VarLabel::new(v as u64), true);
    b.ite(x, hi, lo)
}
