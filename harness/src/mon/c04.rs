//! C04 -- SDDs of the compressing builder are vtree-normalised, compressed,
//! trimmed and canonical.
use crate::ctx::Ctx;
use crate::gen::Vt;
use crate::rng::all_perms;
use crate::sddhist::*;

pub fn run(ctx: &mut Ctx) {
    let checks = SddChecks {
        function: false,
        wellformed: true,
        record_canon: false,
        cold_replay_every: 0,
    };
    let mut vts: Vec<Vt> = Vec::new();
    for p in all_perms(4) {
        vts.extend(Vt::all_shapes(&p));
    }
    let nv = vts.len() as u64;
    for case in ctx.cases("allvtrees", nv, false) {
        let vt = vts[case as usize].clone();
        let c2 = checks.clone();
        ctx.run_case("allvtrees", case, move |ctx, rng| {
            let cfg = SddCfg {
                n: 4,
                vtree: vt,
                family: "enumerated".into(),
                compress: true,
                uniq_cap: Some(4),
                nops: 70,
            };
            let ops = gen_sdd_history(4, cfg.nops, rng);
            run_sdd_history(ctx, &cfg, &ops, &c2);
        });
    }
    for case in ctx.cases("rand", 1500, true) {
        let c2 = checks.clone();
        ctx.run_case("rand", case, move |ctx, rng| {
            let mut cfg = random_sdd_cfg(rng, 6, true);
            cfg.nops = rng.range(5, 70);
            let ops = gen_sdd_history(cfg.n, cfg.nops, rng);
            run_sdd_history(ctx, &cfg, &ops, &c2);
        });
    }
    for case in ctx.cases("long", 12, true) {
        let c2 = checks.clone();
        ctx.run_case("long", case, move |ctx, rng| {
            let mut cfg = random_sdd_cfg(rng, 8, true);
            cfg.n = usize::max(cfg.n, 5);
            let (fam, vt) = crate::gen::random_vtree(cfg.n, rng);
            cfg.vtree = vt;
            cfg.family = fam.into();
            cfg.uniq_cap = Some(4);
            cfg.nops = rng.range(300, 600);
            let ops = gen_sdd_history(cfg.n, cfg.nops, rng);
            run_sdd_history(ctx, &cfg, &ops, &c2);
        });
    }
}
