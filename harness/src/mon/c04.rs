//! C04 -- SDDs of the compressing builder are vtree-normalised, compressed,
//! trimmed and canonical.
use crate::ctx::Ctx;
use crate::gen::Vt;
use crate::rng::all_perms;
use crate::sddhist::*;
use rsdd::builder::sdd::{CompressionSddBuilder, SddBuilder};
use rsdd::builder::BottomUpBuilder;
use rsdd::repr::{SddPtr, VTree, VarLabel};
use serde_json::json;

pub fn run(ctx: &mut Ctx) {
    let checks = SddChecks {
        function: false,
        wellformed: true,
        record_canon: false,
        cold_replay_every: 0,
    };
    let mut vts: Vec<Vt> = Vec::new();
    for p in all_perms(4) {
        vts.extend(Vt::all_shapes(&p));
    }
    let nv = vts.len() as u64;
    for case in ctx.cases("allvtrees", nv, false) {
        let vt = vts[case as usize].clone();
        let c2 = checks.clone();
        ctx.run_case("allvtrees", case, move |ctx, rng| {
            let cfg = SddCfg {
                n: 4,
                vtree: vt,
                family: "enumerated".into(),
                compress: true,
                uniq_cap: Some(4),
                nops: 70,
            };
            let ops = gen_sdd_history(4, cfg.nops, rng);
            run_sdd_history(ctx, &cfg, &ops, &c2);
        });
    }
    // the same with the vtree's variables spread over up to 200 labels (label set with gaps,
    // 64/128 boundaries included)
    for case in ctx.cases("wide", 300, true) {
        let c2 = checks.clone();
        ctx.run_case("wide", case, move |ctx, rng| {
            let mut cfg = random_sdd_cfg(rng, 6, true);
            cfg.nops = rng.range(5, 70);
            let ops = gen_sdd_history(cfg.n, cfg.nops, rng);
            let _g = crate::gen::LabelMapGuard::new(crate::gen::random_label_map(cfg.n, rng));
            ctx.count("histories_over_spread_labels", 1);
            run_sdd_history(ctx, &cfg, &ops, &c2);
        });
    }
    // fault injection on hash quality (hook H6): both SDD tables meet different nodes with one
    // 64-bit hash all the time (`Hash`/`Eq` of BinarySDD and SddOr are consulted on unequal nodes)
    for case in ctx.cases("weak_hash", 400, true) {
        ctx.run_case("weak_hash", case, move |ctx, rng| {
            let mut cfg = random_sdd_cfg(rng, 6, true);
            cfg.compress = true;
            cfg.nops = rng.range(5, 50);
            let ops = gen_sdd_history(cfg.n, cfg.nops, rng);
            let w = crate::caps::WeakHash::new(Some(crate::caps::weak_classes(rng, &ctx.profile.clone(), false)), None);
            let all = SddChecks { function: true, wellformed: true, record_canon: false, cold_replay_every: 0 };
            run_sdd_history(ctx, &cfg, &ops, &all);
            ctx.count("histories_with_weak_hashes", 1);
            ctx.count("unique_table_hash_clashes", w.clashes());
        });
    }
    for case in ctx.cases("rand", 1500, true) {
        let c2 = checks.clone();
        ctx.run_case("rand", case, move |ctx, rng| {
            let mut cfg = random_sdd_cfg(rng, 6, true);
            cfg.nops = rng.range(5, 70);
            let ops = gen_sdd_history(cfg.n, cfg.nops, rng);
            run_sdd_history(ctx, &cfg, &ops, &c2);
        });
    }
    // library-default capacities: > 92 000 decision nodes at one vtree node, so the real
    // 131072-slot SDD table grows; every node is then re-derived (absorption) and must be
    // the same pointer
    let nbig = if ctx.tier == "thorough" { 6 } else { 1 };
    for case in ctx.cases("default_big", nbig, false) {
        ctx.run_case("default_big", case, |ctx, rng| {
            let half = 20usize;
            let mut left = rng.perm(2 * half);
            let right = left.split_off(half);
            let lbl = |v: &Vec<usize>| -> Vec<VarLabel> { v.iter().map(|x| VarLabel::new(*x as u64)).collect() };
            // root with a right-linear left part and a right-linear right part
            let vt = VTree::new_node(Box::new(VTree::right_linear(&lbl(&left))), Box::new(VTree::right_linear(&lbl(&right))));
            crate::caps::reset();
            let _ = rsdd::verif::take_counters();
            let builder = CompressionSddBuilder::new(vt);
            let b = &builder;
            let lit = |v: usize, p: bool| SddPtr::Var(VarLabel::new(v as u64), p);
            // 310 functions on each side: conjunctions of two literals
            let mut side = |vars: &Vec<usize>, rng: &mut crate::rng::Rng| -> Vec<SddPtr> {
                let mut out = Vec::new();
                let mut seen = std::collections::HashSet::new();
                while out.len() < 310 {
                    let (i, j) = (rng.below(half), rng.below(half));
                    let pol = rng.below(4);
                    if i >= j || !seen.insert((i, j, pol)) {
                        continue;
                    }
                    out.push(b.and(lit(vars[i], pol & 1 == 1), lit(vars[j], pol & 2 == 2)));
                }
                out
            };
            let aa = side(&left, rng);
            let bb = side(&right, rng);
            let mut made: Vec<(usize, usize, SddPtr)> = Vec::with_capacity(310 * 310);
            for (i, a) in aa.iter().enumerate() {
                for (j, c) in bb.iter().enumerate() {
                    made.push((i, j, b.and(*a, *c)));
                }
            }
            let (grows, _, _) = rsdd::verif::take_counters();
            ctx.count("default_table_growths", grows);
            ctx.count("big_results", made.len() as u64);
            for (i, j, r) in made.iter() {
                ctx.count("big_rederivations", 1);
                let r2 = b.and(*r, aa[*i]);
                let r3 = b.and(bb[*j], *r);
                if r2 != *r || r3 != *r || !b.eq(r2, *r) {
                    ctx.violation("sdd.canon.default_capacity", "the same function derived twice gives two SDD nodes (library-default table size)",
                        json!({"i": i, "j": j, "table_growths": grows}));
                    return;
                }
            }
            ctx.case_eval(Some(crate::rng::mix(rng.next())));
        });
    }
    for case in ctx.cases("long", 12, true) {
        let c2 = checks.clone();
        ctx.run_case("long", case, move |ctx, rng| {
            let mut cfg = random_sdd_cfg(rng, 8, true);
            cfg.n = usize::max(cfg.n, 5);
            let (fam, vt) = crate::gen::random_vtree(cfg.n, rng);
            cfg.vtree = vt;
            cfg.family = fam.into();
            cfg.uniq_cap = Some(4);
            cfg.nops = rng.range(300, 600);
            let ops = gen_sdd_history(cfg.n, cfg.nops, rng);
            run_sdd_history(ctx, &cfg, &ops, &c2);
        });
    }
}
