//! C07 -- weighted model counts equal the semiring sum over models.
use crate::bddhist::{CacheKind, HistCfg, Robdd};
use crate::ctx::Ctx;
use crate::gen::*;
use crate::rng::Rng;
use crate::sddhist::sdd_from_tt;
use crate::semi::*;
use crate::tt::Tt;
use crate::walk::{bdd_canon_string, sdd_canon_string, BddWalker, SddWalker};
use crate::with_robdd;
use rsdd::builder::decision_nnf::{DecisionNNFBuilder, StandardDecisionNNFBuilder};
use rsdd::builder::sdd::CompressionSddBuilder;
use rsdd::builder::BottomUpBuilder;
use rsdd::constants::primes;
use rsdd::repr::{BddPtr, DDNNFPtr, VarLabel, VarOrder};
use serde_json::{json, Value};

pub fn run(ctx: &mut Ctx) {
    for case in ctx.cases("bdd", 700, true) {
        ctx.run_case("bdd", case, bdd_case);
    }
    for case in ctx.cases("sdd", 500, true) {
        ctx.run_case("sdd", case, sdd_case);
    }
    for case in ctx.cases("ddnnf", 500, true) {
        ctx.run_case("ddnnf", case, ddnnf_case);
    }
}

/// functions with shared nodes, complemented edges and both polarities of one node
pub fn interesting_function(n: usize, rng: &mut Rng) -> (String, Tt) {
    match rng.below(6) {
        0 => {
            // parity of a subset (maximal sharing of complemented children)
            let mut t = Tt::konst(n, rng.bool());
            for v in 0..n {
                if rng.bool() {
                    t = t.xor(&Tt::var(n, v));
                }
            }
            ("parity".into(), t)
        }
        1 => {
            // ite(x, g, !g): both polarities of one node below one parent
            let g = Tt::random(n, n, rng).cofactor(0, false);
            ("ite_x_g_notg".into(), Tt::var(n, 0).ite(&g, &g.not()))
        }
        2 => {
            let k = rng.below(n + 1);
            ("threshold".into(), Tt::from_fn(n, |a| (a.count_ones() as usize) >= k))
        }
        3 => {
            let k = rng.range(1, n);
            (format!("random_over_{}", k), Tt::random(n, k, rng))
        }
        _ => ("random".into(), Tt::random(n, n, rng)),
    }
}

fn weights<S: OSr>(n: usize, normalised: bool, rng: &mut Rng) -> Vec<(S, S)> {
    (0..n).map(|_| S::random_pair(rng, normalised)).collect()
}

fn show_w<S: OSr>(w: &[(S, S)]) -> Value {
    json!(w.iter().map(|(l, h)| json!([l.show(), h.show()])).collect::<Vec<_>>())
}

fn check_count<'a, S: OSr, P: DDNNFPtr<'a>>(
    ctx: &mut Ctx,
    ptr: P,
    expected: &S,
    w: &[(S, S)],
    sub: &str,
    info: &Value,
    nontrivial: bool,
) {
    if !float_exact(w) {
        ctx.count("skipped_not_exactly_representable", 1);
        return;
    }
    let p = params::<S>(w);
    let got = ptr.unsmoothed_wmc(&p);
    ctx.count(&format!("counts_{}", S::NAME), 1);
    let key = if nontrivial {
        Some(crate::rng::mix(crate::rng::hash_str(&info.to_string()) ^ crate::rng::hash_str(&show_w(w).to_string()) ^ crate::rng::hash_str(sub)))
    } else {
        None
    };
    ctx.case_eval(key);
    if !expected.matches(&got) {
        ctx.violation(sub, &format!("{} count differs from the semiring sum over models", S::NAME),
            json!({"semiring": S::NAME, "weights": show_w(w), "observed": S::show_r(&got), "expected": expected.show(), "input": info}));
    }
    // the weight of one (partial) assignment, as the table itself reports it: the product of
    // the chosen literal weights
    let mut bits = crate::rng::mix(crate::rng::hash_str(sub) ^ crate::rng::hash_str(&show_w(w).to_string()));
    let mut lits = Vec::new();
    let mut prod = S::one();
    for (v, wv) in w.iter().enumerate() {
        bits = crate::rng::mix(bits);
        if bits & 3 == 0 {
            continue;
        }
        let pol = bits & 4 != 0;
        lits.push(rsdd::repr::Literal::new(rsdd::repr::VarLabel::new(v as u64), pol));
        prod = prod.mul(if pol { &wv.1 } else { &wv.0 });
    }
    ctx.count("assignment_weights", 1);
    let aw = p.assignment_weight(&lits);
    if !prod.matches(&aw) {
        ctx.violation("wmc.assignment_weight", "WmcParams::assignment_weight is not the product of the chosen literal weights",
            json!({"semiring": S::NAME, "weights": show_w(w), "literals": format!("{:?}", lits), "observed": S::show_r(&aw), "expected": prod.show()}));
    }
}

macro_rules! for_all_semirings {
    ($f:ident, $($args:expr),*) => {
        $f::<OReal, _>($($args),*);
        $f::<OFf<{ primes::U32_TINY }>, _>($($args),*);
        $f::<OFf<{ primes::U32_SMALL }>, _>($($args),*);
        $f::<OFf<{ primes::U64_LARGEST }>, _>($($args),*);
        // a 96-bit exported prime, and two primes a user may choose for the generic field type
        // (2^107 - 1 and 2^127 - 1: the multiplication's slow path beyond the exported sizes)
        $f::<OFf<{ primes::U128_LARGE_2 }>, _>($($args),*);
        $f::<OFf<{ crate::semi::M107 }>, _>($($args),*);
        $f::<OFf<{ crate::semi::M127 }>, _>($($args),*);
        $f::<OBool, _>($($args),*);
        $f::<OEu, _>($($args),*);
        $f::<OCx, _>($($args),*);
        $f::<ORat, _>($($args),*);
        $f::<OPoly, _>($($args),*);
    };
}

fn check_evaluate<'a, P: DDNNFPtr<'a>>(ctx: &mut Ctx, ptr: P, t: &Tt, sub: &str, info: &Value) {
    let n = t.n;
    for a in 0..(1usize << n) {
        let asg: Vec<bool> = (0..n).map(|i| (a >> i) & 1 == 1).collect();
        ctx.count("evaluate_calls", 1);
        if ptr.evaluate(&asg) != t.get(a) {
            ctx.violation(sub, "evaluate() disagrees with the denoted function",
                json!({"assignment": asg, "expected": t.get(a), "input": info}));
            return;
        }
    }
}

fn bdd_counts<'a, S: OSr, P: DDNNFPtr<'a> + Into<BddPtr<'a>>>(ctx: &mut Ctx, rng: &mut Rng, p: P, t: &Tt, order: &[usize], info: &Value) {
    let n = t.n;
    let nt = !t.is_trivial();
    // normalised weights: the sum over all models
    let w = weights::<S>(n, true, rng);
    let e = full_sum(t, &w);
    check_count(ctx, p, &e, &w, "wmc.bdd.normalised", info, nt);
    check_count(ctx, p.neg(), &full_sum(&t.not(), &w), &w, "wmc.bdd.normalised_neg", info, nt);
    // arbitrary weights: the sum over the variables each sub-function depends on
    let w2 = weights::<S>(n, false, rng);
    let u = unsmoothed(t, &w2, order);
    check_count(ctx, p, &u, &w2, "wmc.bdd.unsmoothed", info, nt);
    check_count(ctx, p.neg(), &unsmoothed(&t.not(), &w2, order), &w2, "wmc.bdd.unsmoothed_neg", info, nt);
}

fn smoothed_counts<'a, S: OSr, P: DDNNFPtr<'a>>(ctx: &mut Ctx, rng: &mut Rng, sm: P, t: &Tt, info: &Value) {
    let nt = !t.is_trivial();
    for round in 0..3 {
        let w = weights::<S>(t.n, round == 0, rng);
        check_count(ctx, sm, &full_sum(t, &w), &w, "wmc.bdd.smoothed", info, nt);
        check_count(ctx, sm.neg(), &full_sum(&t.not(), &w), &w, "wmc.bdd.smoothed_neg", info, nt);
    }
    ctx.count("smoothed_diagrams_counted", 1);
}

fn bdd_case(ctx: &mut Ctx, rng: &mut Rng) {
    let n = rng.range(1, 7);
    let (kind, t) = interesting_function(n, rng);
    let cfg = HistCfg {
        n0: n,
        max_new: 0,
        order: rng.perm(n),
        cache: if rng.bool() { CacheKind::All } else { CacheKind::Lru },
        uniq_cap: Some(256),
        lru_bits: Some(6),
        nops: 0,
    };
    ctx.seen("function_kinds", &kind);
    with_robdd!(cfg, b, {
        let p = bdd_from_tt(b, &t, &cfg.order, 0);
        let mut w = BddWalker::new(n);
        if w.tt(p) != t {
            panic!("HARNESS: construction of the test diagram failed (C01's business)");
        }
        let info = json!({"kind": kind, "function": t.hex(), "order": cfg.order, "diagram": bdd_canon_string(p)});
        for_all_semirings!(bdd_counts, ctx, rng, p, &t, &cfg.order, &info);
        // a smoothed BDD (nodes with identical children) is also a diagram the library
        // produces: any weights, counted repeatedly with the same semiring type
        let sm = b.smooth_(p, n);
        if w.tt(sm) == t {
            let sinfo = json!({"kind": kind, "function": t.hex(), "order": cfg.order, "smoothed": bdd_canon_string(sm)});
            for_all_semirings!(smoothed_counts, ctx, rng, sm, &t, &sinfo);
            check_evaluate(ctx, sm, &t, "wmc.bdd.smoothed.evaluate", &sinfo);
        }
        check_evaluate(ctx, p, &t, "wmc.bdd.evaluate", &info);
        check_evaluate(ctx, p.neg(), &t.not(), "wmc.bdd.evaluate", &info);
        if ctx.wants_sample() {
            ctx.sample(json!({"regime": "bdd", "input": info}));
        }
    });
}

/// BDD of a truth table by Shannon expansion along the builder's order
pub fn bdd_from_tt<'a, B: Robdd<'a>>(b: &'a B, t: &Tt, order: &[usize], lvl: usize) -> BddPtr<'a> {
    if t.is_true() {
        return BddPtr::PtrTrue;
    }
    if t.is_false() {
        return BddPtr::PtrFalse;
    }
    assert!(lvl < order.len(), "HARNESS: non-constant function without variables");
    let v = order[lvl];
    if !t.depends_on(v) {
        return bdd_from_tt(b, t, order, lvl + 1);
    }
    let hi = bdd_from_tt(b, &t.cofactor(v, true), order, lvl + 1);
    let lo = bdd_from_tt(b, &t.cofactor(v, false), order, lvl + 1);
    let x = b.var(crate::gen::lab(v), true);
    b.ite(x, hi, lo)
}

fn norm_counts<'a, S: OSr, P: DDNNFPtr<'a>>(ctx: &mut Ctx, rng: &mut Rng, p: P, t: &Tt, sub: &str, info: &Value) {
    let w = weights::<S>(t.n, true, rng);
    let nt = !t.is_trivial();
    check_count(ctx, p, &full_sum(t, &w), &w, sub, info, nt);
    check_count(ctx, p.neg(), &full_sum(&t.not(), &w), &w, &format!("{}_neg", sub), info, nt);
}

fn sdd_case(ctx: &mut Ctx, rng: &mut Rng) {
    let n = rng.range(1, 6);
    let (kind, t) = interesting_function(n, rng);
    let (fam, vt) = random_vtree(n, rng);
    let mut builder = CompressionSddBuilder::new(vt.to_rsdd());
    use rsdd::builder::sdd::SddBuilder;
    let compress = rng.chance(4, 5) || n > 4;
    builder.set_compression(compress);
    let builder = builder;
    let b = &builder;
    let p = sdd_from_tt(b, &t, 0);
    let mut w = SddWalker::new(n);
    if w.tt(p) != t {
        panic!("HARNESS: construction of the test SDD failed (C03's business)");
    }
    ctx.seen("vtree_families", fam);
    let info = json!({"kind": kind, "function": t.hex(), "vtree": vt.to_json(), "compress": compress, "diagram": sdd_canon_string(p)});
    for_all_semirings!(norm_counts, ctx, rng, p, &t, "wmc.sdd.normalised", &info);
    check_evaluate(ctx, p, &t, "wmc.sdd.evaluate", &info);
    check_evaluate(ctx, p.neg(), &t.not(), "wmc.sdd.evaluate", &info);
    if ctx.wants_sample() {
        ctx.sample(json!({"regime": "sdd", "input": info}));
    }
}

fn ddnnf_case(ctx: &mut Ctx, rng: &mut Rng) {
    let mv = rng.range(1, 7);
    let st = CnfStyle {
        max_vars: mv,
        max_clauses: rng.range(1, mv + 3),
        max_width: rng.range(1, 4),
        allow_empty_clause: false,
        allow_empty_cnf: false,
        allow_taut: rng.chance(1, 4),
        allow_dup: rng.chance(1, 4),
    };
    let cl = random_clauses(&st, rng);
    let n = clauses_num_vars(&cl);
    if n == 0 {
        return;
    }
    let t = clauses_tt(&cl, n);
    let perm = rng.perm(n);
    let order = VarOrder::new(&perm.iter().map(|x| VarLabel::new(*x as u64)).collect::<Vec<_>>());
    // either node store; the semantic-hash store yields diagrams with complemented
    // internal edges
    let semantic = rng.bool();
    let sem_builder;
    let std_builder;
    let p = if semantic {
        sem_builder = rsdd::builder::decision_nnf::SemanticDecisionNNFBuilder::<{ primes::U64_LARGEST }>::new(order);
        sem_builder.compile_cnf_topdown(&clauses_to_cnf(&cl))
    } else {
        std_builder = StandardDecisionNNFBuilder::new(order);
        std_builder.compile_cnf_topdown(&clauses_to_cnf(&cl))
    };
    ctx.seen("ddnnf_stores", if semantic { "semantic64" } else { "standard" });
    let mut w = BddWalker::new(n);
    if w.tt(p) != t {
        // C06's business; do not count on top of a wrong diagram
        ctx.count("ddnnf_wrong_diagram_skipped", 1);
        return;
    }
    let info = json!({"clauses": clauses_json(&cl), "order": perm, "function": t.hex(), "diagram": bdd_canon_string(p)});
    for_all_semirings!(norm_counts, ctx, rng, p, &t, "wmc.ddnnf.normalised", &info);
    check_evaluate(ctx, p, &t, "wmc.ddnnf.evaluate", &info);
    check_evaluate(ctx, p.neg(), &t.not(), "wmc.ddnnf.evaluate", &info);
    if ctx.wants_sample() {
        ctx.sample(json!({"regime": "ddnnf", "input": info}));
    }
}
