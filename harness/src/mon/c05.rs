//! C05 -- bottom-up compilation of CNFs, expressions and dtree plans is exact.
use crate::bddhist::{CacheKind, HistCfg, Robdd};
use crate::ctx::Ctx;
use crate::gen::*;
use crate::rng::Rng;
use crate::tt::Tt;
use crate::walk::{BddWalker, SddWalker};
use crate::with_robdd;
use rsdd::builder::bdd::BddBuilder;
use rsdd::builder::sdd::CompressionSddBuilder;
use rsdd::builder::BottomUpBuilder;
use rsdd::plan::BottomUpPlan;
use rsdd::repr::{BddPtr, Cnf, DTree, Literal, PartialModel, SddPtr, VTree, VarLabel, VarOrder};
use serde_json::json;

pub fn run(ctx: &mut Ctx) {
    for case in ctx.cases("bdd_cnf", 1200, true) {
        ctx.run_case("bdd_cnf", case, |ctx, rng| bdd_cnf(ctx, rng, 60));
    }
    for case in ctx.cases("bdd_cnf_wide", 40, true) {
        ctx.run_case("bdd_cnf_wide", case, |ctx, rng| bdd_cnf(ctx, rng, 200));
    }
    for case in ctx.cases("sdd_cnf", 900, true) {
        ctx.run_case("sdd_cnf", case, sdd_cnf);
    }
    for case in ctx.cases("expr", 900, true) {
        ctx.run_case("expr", case, exprs);
    }
    for case in ctx.cases("plans", 600, true) {
        ctx.run_case("plans", case, random_plans);
    }
    for case in ctx.cases("wide", 300, true) {
        ctx.run_case("wide", case, wide_case);
    }
    for case in ctx.cases("reuse", 300, true) {
        ctx.run_case("reuse", case, reuse_case);
    }
}

/// one BDD builder and one SDD builder each compile a sequence of inputs (CNFs that share
/// clauses, expressions, random plans, the first CNF again): every result is checked and
/// every earlier result is re-walked afterwards (a compilation must not depend on, or
/// disturb, what the builder compiled before)
fn reuse_case(ctx: &mut Ctx, rng: &mut Rng) {
    let n = rng.range(2, 7);
    enum In {
        C(Clauses),
        E(Ex),
        P(BottomUpPlan, Tt),
    }
    let mut st = style(rng, 20);
    st.max_vars = n;
    let base = random_clauses(&st, rng);
    let mut inputs: Vec<In> = vec![In::C(base.clone())];
    for _ in 0..rng.range(2, 4) {
        inputs.push(match rng.below(4) {
            0 => {
                let mut c = base.clone();
                if !c.is_empty() && rng.bool() {
                    let i = rng.below(c.len());
                    c.remove(i);
                }
                c.push((0..rng.range(1, 3)).map(|_| (rng.below(n), rng.bool())).collect());
                In::C(c)
            }
            1 => In::C(random_clauses(&st, rng)),
            2 => In::E(Ex::random(n, rng.range(1, 5), rng)),
            _ => {
                let (p, t) = rand_plan(n, rng.range(1, 4), rng);
                In::P(p, t)
            }
        });
    }
    inputs.push(In::C(base));
    let exp_of = |i: &In| -> Tt {
        match i {
            In::C(c) => clauses_tt(c, n),
            In::E(e) => e.tt(n),
            In::P(_, t) => t.clone(),
        }
    };
    let describe = |i: &In| -> serde_json::Value {
        match i {
            In::C(c) => json!({"cnf": clauses_json(c)}),
            In::E(e) => json!({"expr": format!("{:?}", e.to_rsdd())}),
            In::P(p, _) => json!({"plan": format!("{:?}", p)}),
        }
    };
    let cfg = rand_bdd_cfg(rng, n);
    with_robdd!(cfg, b, {
        let mut w = BddWalker::new(n);
        let mut earlier: Vec<(BddPtr, Tt)> = Vec::new();
        for (k, i) in inputs.iter().enumerate() {
            let exp = exp_of(i);
            let r: BddPtr = match i {
                In::C(c) => b.compile_cnf(&clauses_to_cnf(c)),
                In::E(e) => b.compile_logical_expr(&e.to_rsdd()),
                In::P(p, _) => b.compile_plan(p),
            };
            ctx.count("bdd_compilations_in_a_used_builder", if k > 0 { 1 } else { 0 });
            ctx.case_eval(nontrivial_key(&exp, &format!("reuse{}{:?}", k, cfg.order)));
            if w.tt(r) != exp {
                ctx.violation("compile.bdd.reuse", "a compilation in a builder that compiled other inputs before yields a wrong function",
                    json!({"input": describe(i), "position": k, "before": inputs[..k].iter().map(&describe).collect::<Vec<_>>(), "cfg": cfg.to_json()}));
                return;
            }
            for (j, (p, t)) in earlier.iter().enumerate() {
                if w.tt(*p) != *t {
                    ctx.violation("compile.bdd.reuse.drift", "an earlier result changed its function after a later compilation",
                        json!({"earlier": j, "position": k, "cfg": cfg.to_json()}));
                    return;
                }
            }
            // the same input compiled twice in one builder is the same diagram
            if k + 1 == inputs.len() && r != earlier[0].0 {
                ctx.violation("compile.bdd.reuse.ptr", "compiling the first input again gives a different diagram", json!({"input": describe(i), "cfg": cfg.to_json()}));
            }
            earlier.push((r, exp));
        }
    });
    let (fam, vt) = random_vtree(n, rng);
    crate::caps::set_unique(Some(*rng.pick(&[4usize, 64, 1024])));
    let builder = CompressionSddBuilder::new(vt.to_rsdd());
    crate::caps::set_unique(None);
    let sb = &builder;
    let mut w = SddWalker::new(n);
    let mut earlier: Vec<(SddPtr, Tt)> = Vec::new();
    for (k, i) in inputs.iter().enumerate() {
        let exp = exp_of(i);
        let r: SddPtr = match i {
            In::C(c) => sb.compile_cnf(&clauses_to_cnf(c)),
            In::E(e) => sb.compile_logical_expr(&e.to_rsdd()),
            In::P(p, _) => sb.compile_plan(p),
        };
        ctx.count("sdd_compilations_in_a_used_builder", if k > 0 { 1 } else { 0 });
        if w.tt(r) != exp {
            ctx.violation("compile.sdd.reuse", "a compilation in an SDD builder that compiled other inputs before yields a wrong function",
                json!({"input": describe(i), "position": k, "before": inputs[..k].iter().map(&describe).collect::<Vec<_>>(), "family": fam, "vtree": vt.to_json()}));
            return;
        }
        for (j, (p, t)) in earlier.iter().enumerate() {
            if w.tt(*p) != *t {
                ctx.violation("compile.sdd.reuse.drift", "an earlier SDD result changed its function after a later compilation",
                    json!({"earlier": j, "position": k, "vtree": vt.to_json()}));
                return;
            }
        }
        if k + 1 == inputs.len() && !sb.eq(r, earlier[0].0) {
            ctx.violation("compile.sdd.reuse.ptr", "compiling the first input again gives a different SDD", json!({"input": describe(i), "vtree": vt.to_json()}));
        }
        earlier.push((r, exp));
    }
}

/// the CNF's (at most 8) variables are spread over up to 200 labels; orders, vtrees, partial
/// models and dtrees are over the whole label range
fn wide_case(ctx: &mut Ctx, rng: &mut Rng) {
    let mut st = style(rng, 20);
    st.max_vars = st.max_vars.min(8);
    let cl = random_clauses(&st, rng);
    let nd = clauses_num_vars(&cl);
    if nd == 0 {
        return;
    }
    let _g = LabelMapGuard::new(random_label_map(nd, rng));
    fit_label_map(nd);
    let map = label_map().unwrap();
    let cnf = clauses_to_cnf(&cl);
    let top = cnf.num_vars();
    let exp = clauses_tt(&cl, nd);
    let has_empty = cl.iter().any(|c| c.is_empty());
    let info = json!({"clauses": clauses_json(&cl), "label_of_variable": map, "labels": top});
    ctx.count("wide_inputs", 1);
    if top != map[nd - 1] + 1 {
        ctx.violation("cnf.num_vars", "Cnf::num_vars is not max label + 1", json!({"got": top, "input": info}));
        return;
    }
    // ---- BDD under a random order of all labels
    let full: Vec<VarLabel> = rng.perm(top).into_iter().map(|x| VarLabel::new(x as u64)).collect();
    crate::caps::set_unique(Some(64));
    let builder = rsdd::builder::bdd::RobddBuilder::<rsdd::builder::cache::AllIteTable<BddPtr>>::new(VarOrder::new(&full));
    crate::caps::set_unique(None);
    let b = &builder;
    let mut w = BddWalker::new(nd);
    let r = b.compile_cnf(&cnf);
    ctx.count("bdd_compile_cnf", 1);
    ctx.case_eval(nontrivial_key(&exp, &format!("wide{:?}", map)));
    if w.tt(r) != exp || w.foreign {
        ctx.violation("compile.bdd.cnf", "compile_cnf wrong function", json!({"input": info, "expected": exp.hex(), "foreign_variable": w.foreign}));
        return;
    }
    for _ in 0..3 {
        let k = rng.below(nd + 1);
        let mut vs = rng.perm(nd);
        vs.truncate(k);
        let asg: Vec<(usize, bool)> = vs.into_iter().map(|v| (v, rng.bool())).collect();
        let lits: Vec<Literal> = asg.iter().map(|(v, p)| Literal::new(lab(*v), *p)).collect();
        let pm = PartialModel::from_litvec(&lits, top);
        let a = b.compile_cnf_with_assignments(&cnf, &pm);
        let c = b.condition_model(r, &pm);
        let mut e = exp.clone();
        for (v, p) in &asg {
            e = e.cofactor(*v, *p);
        }
        ctx.count("bdd_compile_with_assignments", 1);
        if w.tt(a) != e || w.foreign {
            ctx.violation("compile.bdd.with_assignments", "compile_cnf_with_assignments wrong function", json!({"input": info, "assignment": asg}));
        } else if a != c {
            ctx.violation("compile.bdd.with_assignments.ptr", "compile under assignment is not the same diagram as compile then condition", json!({"input": info, "assignment": asg}));
        }
    }
    // ---- dtree, plan, vtree
    let (oname, eo) = elim_order(&cnf, top, has_empty, rng);
    let dtree = DTree::from_cnf(&cnf, &eo);
    let plan = BottomUpPlan::from_dtree(&dtree);
    let p = b.compile_plan(&plan);
    ctx.count("bdd_compile_plan", 1);
    if w.tt(p) != exp || w.foreign {
        ctx.violation("compile.bdd.plan", "plan from dtree compiles to a wrong function", json!({"input": info, "elim": oname}));
    } else if p != r {
        ctx.violation("compile.bdd.plan.ptr", "plan result is not the same diagram as compile_cnf", json!({"input": info, "elim": oname}));
    }
    // ---- SDD: a vtree from the dtree (occurring variables only) or a right-linear / balanced
    // vtree over all labels
    let (family, vtree) = match rng.below(3) {
        0 => match VTree::from_dtree(&dtree) {
            Some(v) => ("from_dtree", v),
            None => return,
        },
        1 => ("right_linear_all_labels", VTree::right_linear(&full)),
        _ => ("even_split_all_labels", VTree::even_split(&full, if top >= 4 { 2 } else { 0 })),
    };
    crate::caps::set_unique(Some(64));
    let sb = CompressionSddBuilder::new(vtree);
    crate::caps::set_unique(None);
    let mut sw = SddWalker::new(nd);
    let sr = sb.compile_cnf(&cnf);
    ctx.count("sdd_compile_cnf", 1);
    ctx.seen("wide_vtree_families", family);
    if sw.tt(sr) != exp || sw.foreign {
        ctx.violation("compile.sdd.cnf", "SDD compile_cnf wrong function", json!({"input": info, "family": family, "expected": exp.hex()}));
    }
    let sp = sb.compile_plan(&plan);
    if sw.tt(sp) != exp || sw.foreign {
        ctx.violation("compile.sdd.plan", "plan from dtree compiles to a wrong function (SDD)", json!({"input": info, "family": family}));
    } else if !sb.eq(sp, sr) {
        ctx.violation("compile.sdd.plan.ptr", "plan result is not the same SDD as compile_cnf", json!({"input": info, "family": family}));
    }
}

fn style(rng: &mut Rng, max_clauses: usize) -> CnfStyle {
    let max_vars = rng.range(1, 9);
    // mostly clause/variable ratios that leave the formula satisfiable and non-trivial;
    // sometimes long clause lists (the order-dependent sorts see many equal keys)
    let max_clauses = if rng.chance(1, 8) { rng.range(1, max_clauses) } else { rng.range(1, max_vars + 3) };
    CnfStyle {
        max_vars,
        max_clauses,
        max_width: rng.range(1, 5),
        allow_empty_clause: true,
        allow_empty_cnf: true,
        allow_taut: true,
        allow_dup: true,
    }
}

fn rand_bdd_cfg(rng: &mut Rng, n: usize) -> HistCfg {
    HistCfg {
        n0: n,
        max_new: 0,
        order: rng.perm(n),
        cache: if rng.bool() { CacheKind::All } else { CacheKind::Lru },
        uniq_cap: Some(*rng.pick(&[4usize, 16, 256, 4096])),
        lru_bits: Some(rng.range(0, 8)),
        nops: 0,
    }
}

fn elim_order(cnf: &Cnf, nvars: usize, _has_empty_clause: bool, rng: &mut Rng) -> (&'static str, VarOrder) {
    match rng.below(4) {
        0 => ("linear", VarOrder::linear_order(nvars)),
        1 => ("min_fill", cnf.min_fill_order()),
        // (FORCE on a CNF with an empty clause panicked before fix 5c0a54e, finding F13)
        2 => ("force", cnf.force_order()),
        _ => {
            let p: Vec<VarLabel> = rng.perm(nvars).into_iter().map(|x| VarLabel::new(x as u64)).collect();
            ("random", VarOrder::new(&p))
        }
    }
}

fn nontrivial_key(t: &Tt, salt: &str) -> Option<u64> {
    if t.is_trivial() {
        None
    } else {
        Some(crate::rng::mix(t.hash64() ^ crate::rng::hash_str(salt)))
    }
}

fn bdd_cnf(ctx: &mut Ctx, rng: &mut Rng, max_clauses: usize) {
    let st = style(rng, max_clauses);
    let cl = random_clauses(&st, rng);
    let cnf = clauses_to_cnf(&cl);
    let ncnf = clauses_num_vars(&cl);
    if cnf.num_vars() > ncnf {
        ctx.violation("cnf.num_vars", "Cnf::num_vars exceeds max label + 1",
            json!({"clauses": clauses_json(&cl), "got": cnf.num_vars(), "max_label_plus_one": ncnf}));
    }
    // the builder may know more variables than the CNF mentions
    let n = usize::max(1, ncnf + rng.below(2));
    let exp = clauses_tt(&cl, n);
    let cfg = rand_bdd_cfg(rng, n);
    let has_empty = cl.iter().any(|c| c.is_empty());
    ctx.seen("cnf_features", &format!("empty_cnf={} empty_clause={} units={}", cl.is_empty(), has_empty, cl.iter().any(|c| c.len() == 1)));
    with_robdd!(cfg, b, {
        let mut w = BddWalker::new(n);
        let r = b.compile_cnf(&cnf);
        let got = w.tt(r);
        ctx.case_eval(nontrivial_key(&exp, &format!("bddcnf{:?}", cfg.order)));
        ctx.count("bdd_compile_cnf", 1);
        if got != exp {
            ctx.violation("compile.bdd.cnf", "compile_cnf wrong function",
                json!({"clauses": clauses_json(&cl), "cfg": cfg.to_json(), "observed": got.hex(), "expected": exp.hex()}));
        }
        // cross-check of the oracle with the library's evaluator (evidence only)
        for a in 0..(1usize << n).min(64) {
            let asg: Vec<bool> = (0..n).map(|i| (a >> i) & 1 == 1).collect();
            if cnf.eval(&asg) != exp.get(a) {
                ctx.count("oracle_vs_cnf_eval_disagreements", 1);
            }
        }
        // compile under a partial assignment == compile then condition
        for _ in 0..3 {
            let k = rng.below(n + 1);
            let mut vs = rng.perm(n);
            vs.truncate(k);
            let asg: Vec<(usize, bool)> = vs.into_iter().map(|v| (v, rng.bool())).collect();
            let lits: Vec<Literal> = asg.iter().map(|(v, p)| Literal::new(VarLabel::new(*v as u64), *p)).collect();
            let pm = PartialModel::from_litvec(&lits, n);
            let a = b.compile_cnf_with_assignments(&cnf, &pm);
            let c = b.condition_model_(r, &pm);
            let mut e = exp.clone();
            for (v, p) in &asg {
                e = e.cofactor(*v, *p);
            }
            let at = w.tt(a);
            ctx.count("bdd_compile_with_assignments", 1);
            ctx.case_eval(nontrivial_key(&e, "withassign"));
            if at != e {
                ctx.violation("compile.bdd.with_assignments", "compile_cnf_with_assignments wrong function",
                    json!({"clauses": clauses_json(&cl), "assignment": asg, "cfg": cfg.to_json(), "observed": at.hex(), "expected": e.hex()}));
            } else if a != c {
                ctx.violation("compile.bdd.with_assignments.ptr", "compile under assignment is not the same diagram as compile then condition",
                    json!({"clauses": clauses_json(&cl), "assignment": asg, "cfg": cfg.to_json()}));
            }
        }
        // plan from a dtree (needs at least one clause)
        if !cl.is_empty() {
            let (oname, eo) = elim_order(&cnf, usize::max(ncnf, 1), has_empty, rng);
            ctx.seen("elim_orders", oname);
            let dtree = DTree::from_cnf(&cnf, &eo);
            let plan = BottomUpPlan::from_dtree(&dtree);
            let p = b.compile_plan(&plan);
            let pt = w.tt(p);
            ctx.count("bdd_compile_plan", 1);
            ctx.case_eval(nontrivial_key(&exp, &format!("plan{}", oname)));
            if pt != exp {
                ctx.violation("compile.bdd.plan", "plan from dtree compiles to a wrong function",
                    json!({"clauses": clauses_json(&cl), "elim": oname, "cfg": cfg.to_json(), "observed": pt.hex(), "expected": exp.hex()}));
            } else if p != r {
                ctx.violation("compile.bdd.plan.ptr", "plan result is not the same diagram as compile_cnf",
                    json!({"clauses": clauses_json(&cl), "elim": oname, "cfg": cfg.to_json()}));
            }
        }
        if ctx.wants_sample() {
            ctx.sample(json!({"regime": "bdd_cnf", "clauses": clauses_json(&cl), "cfg": cfg.to_json(), "function": exp.hex()}));
        }
    });
}

fn sdd_cnf(ctx: &mut Ctx, rng: &mut Rng) {
    let mut st = style(rng, 30);
    st.max_vars = st.max_vars.min(7);
    let cl = random_clauses(&st, rng);
    let cnf = clauses_to_cnf(&cl);
    let ncnf = clauses_num_vars(&cl);
    let has_empty = cl.iter().any(|c| c.is_empty());
    // vtree: random family over 0..n, or derived from a dtree of this CNF
    let use_dtree = !cl.is_empty() && rng.chance(1, 3);
    let (family, vtree, n): (String, VTree, usize) = if use_dtree {
        let (oname, eo) = elim_order(&cnf, usize::max(ncnf, 1), has_empty, rng);
        let dtree = DTree::from_cnf(&cnf, &eo);
        match VTree::from_dtree(&dtree) {
            Some(v) => (format!("from_dtree/{}", oname), v, usize::max(ncnf, 1)),
            None => return,
        }
    } else {
        let n = usize::max(1, ncnf + rng.below(2));
        let (f, vt) = random_vtree(n, rng);
        (f.to_string(), vt.to_rsdd(), n)
    };
    // a dtree-derived vtree only contains the variables that occur: every variable of
    // the CNF occurs, so the CNF is compilable under it
    let exp = clauses_tt(&cl, n);
    crate::caps::set_unique(Some(*rng.pick(&[4usize, 64, 1024])));
    let builder = CompressionSddBuilder::new(vtree.clone());
    crate::caps::set_unique(None);
    let b = &builder;
    let mut w = SddWalker::new(n);
    let r = b.compile_cnf(&cnf);
    let got = w.tt(r);
    ctx.seen("vtree_families", &family);
    ctx.count("sdd_compile_cnf", 1);
    ctx.case_eval(nontrivial_key(&exp, &format!("sddcnf{}", family)));
    if got != exp {
        ctx.violation("compile.sdd.cnf", "SDD compile_cnf wrong function",
            json!({"clauses": clauses_json(&cl), "family": family, "vtree": format!("{:?}", vtree), "observed": got.hex(), "expected": exp.hex()}));
    }
    if !cl.is_empty() {
        let (oname, eo) = elim_order(&cnf, usize::max(ncnf, 1), has_empty, rng);
        let dtree = DTree::from_cnf(&cnf, &eo);
        let plan = BottomUpPlan::from_dtree(&dtree);
        let p = b.compile_plan(&plan);
        let pt = w.tt(p);
        ctx.count("sdd_compile_plan", 1);
        ctx.case_eval(nontrivial_key(&exp, &format!("sddplan{}", oname)));
        if pt != exp {
            ctx.violation("compile.sdd.plan", "SDD plan from dtree compiles to a wrong function",
                json!({"clauses": clauses_json(&cl), "elim": oname, "family": family, "observed": pt.hex(), "expected": exp.hex()}));
        } else if p != r || !b.eq(p, r) {
            ctx.violation("compile.sdd.plan.ptr", "SDD plan result is not the same diagram as compile_cnf",
                json!({"clauses": clauses_json(&cl), "elim": oname, "family": family}));
        }
    }
    if ctx.wants_sample() {
        ctx.sample(json!({"regime": "sdd_cnf", "clauses": clauses_json(&cl), "family": family, "function": exp.hex()}));
    }
}

fn exprs(ctx: &mut Ctx, rng: &mut Rng) {
    let n = rng.range(1, 8);
    let depth = rng.range(1, 8);
    let mut e = Ex::random(n, depth, rng);
    let mut guard = 0;
    while e.size() > 400 && guard < 20 {
        e = Ex::random(n, depth.saturating_sub(1), rng);
        guard += 1;
    }
    let exp = e.tt(n);
    let le = e.to_rsdd();
    let cfg = rand_bdd_cfg(rng, n);
    with_robdd!(cfg, b, {
        let mut w = BddWalker::new(n);
        let r = b.compile_logical_expr(&le);
        let got = w.tt(r);
        ctx.count("bdd_compile_expr", 1);
        ctx.case_eval(nontrivial_key(&exp, &format!("bddexpr{:?}", cfg.order)));
        if got != exp {
            ctx.violation("compile.bdd.expr", "compile_logical_expr (BDD) wrong function",
                json!({"expr": format!("{:?}", le), "cfg": cfg.to_json(), "observed": got.hex(), "expected": exp.hex()}));
        }
    });
    let (fam, vt) = random_vtree(n, rng);
    let builder = CompressionSddBuilder::new(vt.to_rsdd());
    let b = &builder;
    let mut w = SddWalker::new(n);
    let r = b.compile_logical_expr(&le);
    let got = w.tt(r);
    ctx.count("sdd_compile_expr", 1);
    ctx.case_eval(nontrivial_key(&exp, &format!("sddexpr{}", fam)));
    if got != exp {
        ctx.violation("compile.sdd.expr", "compile_logical_expr (SDD) wrong function",
            json!({"expr": format!("{:?}", le), "vtree": vt.to_json(), "observed": got.hex(), "expected": exp.hex()}));
    }
    if ctx.wants_sample() {
        ctx.sample(json!({"regime": "expr", "expr": e.sexpr(&(0..n).map(|i| format!("v{}", i)).collect::<Vec<_>>()), "function": exp.hex()}));
    }
}

fn rand_plan(n: usize, depth: usize, rng: &mut Rng) -> (BottomUpPlan, Tt) {
    if depth == 0 || rng.chance(1, 5) {
        return match rng.below(8) {
            0 => (BottomUpPlan::ConstTrue, Tt::konst(n, true)),
            1 => (BottomUpPlan::ConstFalse, Tt::konst(n, false)),
            _ => {
                let v = rng.below(n);
                let p = rng.bool();
                (BottomUpPlan::literal(VarLabel::new(v as u64), p), Tt::lit(n, v, p))
            }
        };
    }
    let d = depth - 1;
    match rng.below(6) {
        0 => {
            let (a, t) = rand_plan(n, d, rng);
            (BottomUpPlan::not(a), t.not())
        }
        1 | 2 => {
            let (a, t) = rand_plan(n, d, rng);
            let (c, u) = rand_plan(n, d, rng);
            (BottomUpPlan::and(a, c), t.and(&u))
        }
        3 => {
            let (a, t) = rand_plan(n, d, rng);
            let (c, u) = rand_plan(n, d, rng);
            (BottomUpPlan::or(a, c), t.or(&u))
        }
        4 => {
            let (a, t) = rand_plan(n, d, rng);
            let (c, u) = rand_plan(n, d, rng);
            (BottomUpPlan::iff(a, c), t.iff(&u))
        }
        _ => {
            let (a, t) = rand_plan(n, d, rng);
            let (c, u) = rand_plan(n, d, rng);
            let (e, x) = rand_plan(n, d, rng);
            (BottomUpPlan::ite(a, c, e), t.ite(&u, &x))
        }
    }
}

fn random_plans(ctx: &mut Ctx, rng: &mut Rng) {
    let n = rng.range(1, 7);
    let (plan, exp) = rand_plan(n, rng.range(1, 6), rng);
    let cfg = rand_bdd_cfg(rng, n);
    with_robdd!(cfg, b, {
        let mut w = BddWalker::new(n);
        let r: BddPtr = b.compile_plan(&plan);
        let got = w.tt(r);
        ctx.count("bdd_compile_random_plan", 1);
        ctx.case_eval(nontrivial_key(&exp, &format!("bddrplan{:?}", cfg.order)));
        if got != exp {
            ctx.violation("compile.bdd.random_plan", "compile_plan (BDD) wrong function",
                json!({"plan": format!("{:?}", plan), "cfg": cfg.to_json(), "observed": got.hex(), "expected": exp.hex()}));
        }
    });
    let (_fam, vt) = random_vtree(n, rng);
    let builder = CompressionSddBuilder::new(vt.to_rsdd());
    let b = &builder;
    let mut w = SddWalker::new(n);
    let r: SddPtr = b.compile_plan(&plan);
    let got = w.tt(r);
    ctx.count("sdd_compile_random_plan", 1);
    ctx.case_eval(nontrivial_key(&exp, "sddrplan"));
    if got != exp {
        ctx.violation("compile.sdd.random_plan", "compile_plan (SDD) wrong function",
            json!({"plan": format!("{:?}", plan), "vtree": vt.to_json(), "observed": got.hex(), "expected": exp.hex()}));
    }
}
