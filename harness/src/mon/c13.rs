//! C13 -- every shipped weight type obeys the semiring (and declared ring / lattice) laws.
use crate::ctx::Ctx;
use crate::exact::*;
use crate::rng::Rng;
use crate::semi::*;
use rsdd::constants::primes;
use rsdd::util::semirings::{
    BBRing, BBSemiring, ExpectedUtility, FiniteField, JoinSemilattice, MeetSemilattice, Semiring,
};
use serde_json::json;
use std::cmp::Ordering;

pub fn run(ctx: &mut Ctx) {
    // each case = one (type, slice of the triple space); not scaled except the random ones
    for case in ctx.cases("boolean", 1, false) {
        ctx.run_case("boolean", case, |ctx, _| {
            let dom = vec![OBool(false), OBool(true)];
            laws_over(ctx, &dom, 0, 1);
            ctx.count("domains_exhaustive", 1);
        });
    }
    for case in ctx.cases("real", 9, false) {
        ctx.run_case("real", case, |ctx, _| {
            let dom: Vec<OReal> = [(-3i128, 1u32), (-1, 2), (0, 0), (1, 3), (1, 1), (3, 2), (1, 0), (5, 2), (3, 0)]
                .iter().map(|(n, e)| OReal(Dy::new(*n, *e))).collect();
            laws_over(ctx, &dom, case as usize, 9);
            real_lattice(ctx, &dom, case as usize);
        });
    }
    for case in ctx.cases("complex", 25, false) {
        ctx.run_case("complex", case, |ctx, _| {
            let g = [Dy::new(-3, 1), Dy::new(-1, 2), Dy::int(0), Dy::new(1, 1), Dy::int(2)];
            let mut dom = Vec::new();
            for a in g {
                for b in g {
                    dom.push(OCx(a, b));
                }
            }
            laws_over(ctx, &dom, case as usize, 25);
            // subtraction of the complex weight type (it has a `Sub` operator although it does not
            // declare itself a `Ring`): value against the oracle, and (a+b)-b = a
            let a = &dom[case as usize];
            for b in &dom {
                ctx.count("complex_sub_pairs", 1);
                let d = a.to_r() - b.to_r();
                let want = OCx(a.0.sub(b.0), a.1.sub(b.1));
                if !want.matches(&d) {
                    fail(ctx, "sub_value", a, b, b, String::new());
                }
                let back = (a.to_r() + b.to_r()) - b.to_r();
                if !a.matches(&back) {
                    fail(ctx, "sub_inverts_add", a, b, b, String::new());
                }
            }
        });
    }
    for case in ctx.cases("eu", 25, false) {
        ctx.run_case("eu", case, |ctx, _| {
            let ps = [Dy::int(0), Dy::new(1, 2), Dy::new(1, 1), Dy::int(1), Dy::new(3, 1)];
            let us = [Dy::int(-2), Dy::new(-1, 1), Dy::int(0), Dy::int(1), Dy::new(5, 1)];
            let mut dom = Vec::new();
            for a in ps {
                for b in us {
                    dom.push(OEu(a, b));
                }
            }
            laws_over(ctx, &dom, case as usize, 25);
            eu_lattice(ctx, &dom, case as usize);
        });
    }
    for case in ctx.cases("rational", 13, false) {
        ctx.run_case("rational", case, |ctx, _| {
            let dom: Vec<ORat> = (0..13).map(ORat).collect();
            laws_over(ctx, &dom, case as usize, 13);
        });
    }
    for case in ctx.cases("poly", 60, true) {
        ctx.run_case("poly", case, |ctx, rng| {
            let mut dom = Vec::new();
            for len in [0usize, 1, 2, 16, 31, 32, rng.range(3, 30)] {
                let c: Vec<i128> = (0..len).map(|i| if i + 1 == len { 1 + rng.below(3) as i128 } else { rng.below(7) as i128 - 3 }).collect();
                dom.push(OPoly::from(&c));
            }
            laws_over(ctx, &dom, 0, 1);
        });
    }
    macro_rules! field {
        ($name:expr, $p:expr) => {
            for case in ctx.cases($name, 14, false) {
                ctx.run_case($name, case, |ctx, rng| field_case::<{ $p }>(ctx, rng, case as usize, $name));
            }
        };
    }
    // bit-length grid: for every pair of operand bit lengths, values around each power of two
    // (2^i - 1, 2^i, 2^i + 1, and a random value of that length), reduced modulo P: products,
    // sums and differences against wide reference arithmetic (intermediate overflow depends on
    // the bit lengths of the operands, not on how close they are to P)
    macro_rules! grid {
        ($name:expr, $p:expr) => {
            for case in ctx.cases(concat!($name, "_bitgrid"), 8, false) {
                ctx.run_case(concat!($name, "_bitgrid"), case, |ctx, rng| bitgrid_case::<{ $p }>(ctx, rng, case as usize, $name));
            }
        };
    }
    grid!("ff_u32_tiny", primes::U32_TINY);
    grid!("ff_u32_small", primes::U32_SMALL);
    grid!("ff_u64_largest", primes::U64_LARGEST);
    grid!("ff_u128_large_1", primes::U128_LARGE_1);
    grid!("ff_u128_large_2", primes::U128_LARGE_2);
    grid!("ff_u128_large_3", primes::U128_LARGE_3);
    grid!("ff_u128_large_4", primes::U128_LARGE_4);
    grid!("ff_user_m107", crate::semi::M107);
    grid!("ff_user_m127", crate::semi::M127);
    field!("ff_user_m107", crate::semi::M107);
    field!("ff_user_m127", crate::semi::M127);
    field!("ff_u32_tiny", primes::U32_TINY);
    field!("ff_u32_small", primes::U32_SMALL);
    field!("ff_u64_largest", primes::U64_LARGEST);
    field!("ff_u128_large_1", primes::U128_LARGE_1);
    field!("ff_u128_large_2", primes::U128_LARGE_2);
    field!("ff_u128_large_3", primes::U128_LARGE_3);
    field!("ff_u128_large_4", primes::U128_LARGE_4);
}

fn fail<S: OSr>(ctx: &mut Ctx, law: &str, a: &S, b: &S, c: &S, extra: String) {
    ctx.violation(&format!("law.{}.{}", S::NAME, law), &format!("{}: {} violated", S::NAME, law),
        json!({"a": a.show(), "b": b.show(), "c": c.show(), "detail": extra}));
}

/// semiring laws for all triples (a, b, c) with a = dom[first + k*stride]
fn laws_over<S: OSr>(ctx: &mut Ctx, dom: &[S], first: usize, stride: usize)
where
    S::R: PartialEq,
{
    let v0 = ctx.violations;
    let zero = S::R::zero();
    let one = S::R::one();
    if !S::zero().matches(&zero) || !S::one().matches(&one) {
        ctx.violation(&format!("law.{}.constants", S::NAME), "zero()/one() are not the semiring constants", json!({}));
    }
    let mut i = first;
    while i < dom.len() {
        let a = &dom[i];
        i += stride;
        let ra = a.to_r();
        // identities and annihilation
        if ra + zero != ra || zero + ra != ra {
            fail(ctx, "additive_identity", a, a, a, String::new());
        }
        if ra * one != ra || one * ra != ra {
            fail(ctx, "multiplicative_identity", a, a, a, String::new());
        }
        if ra * zero != zero || zero * ra != zero {
            fail(ctx, "annihilation", a, a, a, String::new());
        }
        for b in dom {
            let rb = b.to_r();
            let (sum, prod) = (ra + rb, ra * rb);
            ctx.count("pairs", 1);
            // results equal the reference arithmetic
            if !a.add(b).matches(&sum) {
                fail(ctx, "add_value", a, b, b, format!("got {}, reference {}", S::show_r(&sum), a.add(b).show()));
            }
            if !a.mul(b).matches(&prod) {
                fail(ctx, "mul_value", a, b, b, format!("got {}, reference {}", S::show_r(&prod), a.mul(b).show()));
            }
            if sum != rb + ra {
                fail(ctx, "add_commutative", a, b, b, String::new());
            }
            if prod != rb * ra {
                fail(ctx, "mul_commutative", a, b, b, String::new());
            }
            for c in dom {
                let rc = c.to_r();
                ctx.count("triples", 1);
                ctx.case_eval(Some(crate::rng::mix(crate::rng::hash_str(&format!("{}{}{}{}", S::NAME, a.show(), b.show(), c.show())))));
                if (ra + rb) + rc != ra + (rb + rc) {
                    fail(ctx, "add_associative", a, b, c, String::new());
                }
                if (ra * rb) * rc != ra * (rb * rc) {
                    fail(ctx, "mul_associative", a, b, c, String::new());
                }
                if ra * (rb + rc) != ra * rb + ra * rc {
                    fail(ctx, "left_distributive", a, b, c, String::new());
                }
                if (rb + rc) * ra != rb * ra + rc * ra {
                    fail(ctx, "right_distributive", a, b, c, String::new());
                }
                if ctx.violations > v0 + 40 {
                    return;
                }
            }
        }
    }
    ctx.seen("types", S::NAME);
}

fn real_lattice(ctx: &mut Ctx, dom: &[OReal], first: usize) {
    let a = &dom[first];
    let ra = a.to_r();
    for b in dom {
        let rb = b.to_r();
        // ring: (a+b)-b = a
        if (ra + rb) - rb != ra {
            fail(ctx, "sub_inverts_add", a, b, b, String::new());
        }
        let j = JoinSemilattice::join(&ra, &rb);
        let m = MeetSemilattice::meet(&ra, &rb);
        let ch = BBSemiring::choose(&ra, &rb);
        let ch2 = BBRing::choose(&ra, &rb);
        ctx.count("lattice_pairs", 1);
        if j != JoinSemilattice::join(&rb, &ra) || m != MeetSemilattice::meet(&rb, &ra) {
            fail(ctx, "lattice_commutative", a, b, b, String::new());
        }
        if JoinSemilattice::join(&ra, &ra) != ra || MeetSemilattice::meet(&ra, &ra) != ra {
            fail(ctx, "lattice_idempotent", a, a, a, String::new());
        }
        match a.0.cmp(b.0) {
            Ordering::Less | Ordering::Equal => {
                if j != rb || ch != rb || ch2 != rb || m != ra || ra.partial_cmp(&rb) == Some(Ordering::Greater) {
                    fail(ctx, "order_consistency", a, b, b, String::new());
                }
            }
            Ordering::Greater => {
                if j != ra || ch != ra || ch2 != ra || m != rb {
                    fail(ctx, "order_consistency", a, b, b, String::new());
                }
            }
        }
        for c in dom {
            let rc = c.to_r();
            if JoinSemilattice::join(&JoinSemilattice::join(&ra, &rb), &rc) != JoinSemilattice::join(&ra, &JoinSemilattice::join(&rb, &rc))
                || MeetSemilattice::meet(&MeetSemilattice::meet(&ra, &rb), &rc) != MeetSemilattice::meet(&ra, &MeetSemilattice::meet(&rb, &rc))
            {
                fail(ctx, "lattice_associative", a, b, c, String::new());
            }
        }
    }
}

fn eu_lattice(ctx: &mut Ctx, dom: &[OEu], first: usize) {
    let a = &dom[first];
    let ra: ExpectedUtility = a.to_r();
    for b in dom {
        let rb: ExpectedUtility = b.to_r();
        if (ra + rb) - rb != ra {
            fail(ctx, "sub_inverts_add", a, b, b, String::new());
        }
        let j = JoinSemilattice::join(&ra, &rb);
        let m = MeetSemilattice::meet(&ra, &rb);
        ctx.count("lattice_pairs", 1);
        if j != JoinSemilattice::join(&rb, &ra) || m != MeetSemilattice::meet(&rb, &ra) {
            fail(ctx, "lattice_commutative", a, b, b, String::new());
        }
        if JoinSemilattice::join(&ra, &ra) != ra || MeetSemilattice::meet(&ra, &ra) != ra {
            fail(ctx, "lattice_idempotent", a, a, a, String::new());
        }
        // reference componentwise order
        let c0 = a.0.cmp(b.0);
        let c1 = a.1.cmp(b.1);
        let declared = ra.partial_cmp(&rb);
        let expected = if c0 == Ordering::Less && c1 == Ordering::Less {
            Some(Ordering::Less)
        } else if c0 == Ordering::Greater && c1 == Ordering::Greater {
            Some(Ordering::Greater)
        } else if c0 == Ordering::Equal && c1 == Ordering::Equal {
            Some(Ordering::Equal)
        } else {
            None
        };
        if declared != expected {
            fail(ctx, "declared_order", a, b, b, format!("{:?} vs {:?}", declared, expected));
        }
        if let Some(o) = declared {
            let (big, small) = if o == Ordering::Greater { (ra, rb) } else { (rb, ra) };
            if j != big || m != small || BBSemiring::choose(&ra, &rb) != big || BBRing::choose(&ra, &rb) != big {
                fail(ctx, "order_consistency", a, b, b, String::new());
            }
        }
        for c in dom {
            let rc = c.to_r();
            if JoinSemilattice::join(&JoinSemilattice::join(&ra, &rb), &rc) != JoinSemilattice::join(&ra, &JoinSemilattice::join(&rb, &rc))
                || MeetSemilattice::meet(&MeetSemilattice::meet(&ra, &rb), &rc) != MeetSemilattice::meet(&ra, &MeetSemilattice::meet(&rb, &rc))
            {
                fail(ctx, "lattice_associative", a, b, c, String::new());
            }
        }
    }
}

fn bitgrid_case<const P: u128>(ctx: &mut Ctx, rng: &mut Rng, slice: usize, name: &str) {
    let bits = 128 - P.leading_zeros() as usize;
    let mut vals: Vec<u128> = Vec::new();
    for i in 0..=bits {
        let p2 = if i >= 128 { 0 } else { 1u128 << i };
        for v in [p2.wrapping_sub(1), p2, p2.wrapping_add(1), p2 | ((((rng.next() as u128) << 64) | rng.next() as u128) & p2.wrapping_sub(1))] {
            vals.push(v % P);
        }
    }
    vals.push(P - 1);
    vals.push(P / 2);
    vals.sort();
    vals.dedup();
    for (i, a) in vals.iter().enumerate() {
        if i % 8 != slice {
            continue;
        }
        let ra = FiniteField::<P>::new(*a);
        for b in &vals {
            let rb = FiniteField::<P>::new(*b);
            ctx.count("bitgrid_pairs", 1);
            let (m, s, d) = ((ra * rb).value(), (ra + rb).value(), (ra - rb).value());
            if m != mulmod(*a, *b, P) || s != addmod(*a, *b, P) || d != submod(*a, *b, P) {
                ctx.violation(&format!("law.{}.bitgrid", name), "finite-field result is not integer arithmetic modulo P (bit-length grid)",
                    json!({"a": a.to_string(), "b": b.to_string(), "mul": m.to_string(), "add": s.to_string(), "sub": d.to_string(),
                        "expected_mul": mulmod(*a, *b, P).to_string(), "expected_add": addmod(*a, *b, P).to_string(), "expected_sub": submod(*a, *b, P).to_string()}));
                return;
            }
        }
    }
    ctx.case_eval(Some(crate::rng::mix(crate::rng::hash_str(name) ^ slice as u64)));
}

fn field_case<const P: u128>(ctx: &mut Ctx, rng: &mut Rng, first: usize, name: &str) {
    let rnd = |rng: &mut Rng| (((rng.next() as u128) << 64) | rng.next() as u128) % P;
    let dom: Vec<OFf<P>> = vec![
        0, 1, 2, P / 2 - 1, P / 2, P / 2 + 1, P - 2, P - 1,
        (1u128 << 32) % P, ((1u128 << 64) - 1) % P, ((1u128 << 64) + 1) % P,
        rnd(rng), rnd(rng), rnd(rng),
    ].into_iter().map(OFf::<P>).collect();
    // construction reduces modulo P
    for v in [0u128, P - 1, P, P + 1, u128::MAX, u128::MAX - 1, rnd(rng).wrapping_mul(3)] {
        if FiniteField::<P>::new(v).value() != v % P {
            ctx.violation(&format!("law.{}.new", name), "FiniteField::new does not reduce modulo P", json!({"v": v.to_string()}));
        }
    }
    laws_over(ctx, &dom, first, 14);
    // ring: subtraction inverts addition, and equals subtraction modulo P
    let a = &dom[first];
    let ra = a.to_r();
    for b in &dom {
        let rb = b.to_r();
        ctx.count("field_sub_pairs", 1);
        let d = ra - rb;
        if d.value() != submod(a.0, b.0, P) {
            ctx.violation(&format!("law.{}.sub_value", name), "finite-field subtraction is not subtraction modulo P",
                json!({"a": a.0.to_string(), "b": b.0.to_string(), "got": d.value().to_string(), "expected": submod(a.0, b.0, P).to_string()}));
        }
        if ((ra + rb) - rb).value() != a.0 {
            ctx.violation(&format!("law.{}.sub_inverts_add", name), "(a+b)-b != a in a finite field",
                json!({"a": a.0.to_string(), "b": b.0.to_string(), "got": ((ra + rb) - rb).value().to_string()}));
        }
    }
    ctx.seen("primes", name);
}
