//! C17 -- parsing and serialisation preserve the formula.
//! The Rust side parses generated texts and checks them against its own evaluation,
//! and writes the JSON serialisations together with the expected truth table / tree
//! to a side file that an independent Python reader (pyoracle/c17_reader.py) checks.
use crate::bddhist::*;
use crate::ctx::Ctx;
use crate::gen::*;
use crate::rng::Rng;
use crate::sddhist::{gen_sdd_history, random_sdd_cfg};
use crate::tt::Tt;
use crate::walk::{BddWalker, SddWalker};
use crate::with_robdd;
use rsdd::builder::sdd::{CompressionSddBuilder, SddBuilder};
use rsdd::builder::BottomUpBuilder;
use rsdd::repr::{BddPtr, Cnf, DDNNFPtr, LogicalExpr, SddPtr, VarLabel};
use rsdd::serialize::{BDDSerializer, LogicalSExpr, SDDSerializer, VTreeSerializer};
use serde_json::{json, Value};
use std::collections::BTreeSet;
use std::io::Write;

pub fn run(ctx: &mut Ctx) {
    let path = format!("{}/{}.{}.{}.ser.jsonl", ctx.outdir, ctx.prop, ctx.profile, ctx.shard);
    let mut out = std::io::BufWriter::new(std::fs::File::create(&path).expect("HARNESS: cannot create side file"));
    for case in ctx.cases("dimacs", 900, true) {
        ctx.run_case("dimacs", case, dimacs_case);
    }
    // DIMACS texts at the edge of the format: no clause at all (`p cnf n 0`), zero variables,
    // empty clauses, and CNFs printed under their own counts (F19)
    for case in ctx.cases("dimacs_degenerate", 60, true) {
        ctx.run_case("dimacs_degenerate", case, dimacs_degenerate);
    }
    for case in ctx.cases("sexpr", 900, true) {
        ctx.run_case("sexpr", case, sexpr_case);
    }
    for case in ctx.cases("ser_bdd", 300, true) {
        ctx.run_case("ser_bdd", case, |ctx, rng| ser_bdd_case(ctx, rng, &mut out, case));
    }
    for case in ctx.cases("ser_sdd", 300, true) {
        ctx.run_case("ser_sdd", case, |ctx, rng| ser_sdd_case(ctx, rng, &mut out, case));
    }
    for case in ctx.cases("ser_vtree", 200, true) {
        ctx.run_case("ser_vtree", case, |ctx, rng| {
            let (fam, vt) = random_vtree(rng.range(1, 12), rng);
            let s = serde_json::to_string(&VTreeSerializer::from_vtree(&vt.to_rsdd())).expect("HARNESS: json");
            let rec = json!({"kind": "vtree", "regime": "ser_vtree", "case": case, "json": s, "expected": vt.to_json(), "family": fam});
            let _ = writeln!(out, "{}", rec);
            ctx.count("vtrees_serialised", 1);
            ctx.case_eval(Some(crate::rng::hash_str(&vt.to_json().to_string())));
        });
    }
    let _ = out.flush();
}

fn bits(t: &Tt) -> String {
    (0..(1usize << t.n)).map(|a| if t.get(a) { '1' } else { '0' }).collect()
}

/// my own evaluator of rsdd's public expression AST
fn eval_le(e: &LogicalExpr, val: &dyn Fn(usize) -> bool) -> bool {
    match e {
        LogicalExpr::Literal(v, p) => val(*v) == *p,
        LogicalExpr::Not(a) => !eval_le(a, val),
        LogicalExpr::And(a, b) => eval_le(a, val) && eval_le(b, val),
        LogicalExpr::Or(a, b) => eval_le(a, val) || eval_le(b, val),
        LogicalExpr::Iff(a, b) => eval_le(a, val) == eval_le(b, val),
        LogicalExpr::Xor(a, b) => eval_le(a, val) != eval_le(b, val),
        LogicalExpr::Ite { guard, thn, els } => {
            if eval_le(guard, val) {
                eval_le(thn, val)
            } else {
                eval_le(els, val)
            }
        }
    }
}

/// the parsed formula's table according to the library's own evaluator `LogicalExpr::eval`
/// (labels `first..first+n`)
fn lib_eval_tt(le: &LogicalExpr, n: usize, first: usize) -> Tt {
    Tt::from_fn(n, |a| {
        let m: std::collections::HashMap<rsdd::repr::VarLabel, bool> =
            (0..n).map(|i| (rsdd::repr::VarLabel::new((i + first) as u64), (a >> i) & 1 == 1)).collect();
        le.eval(&m)
    })
}

fn dimacs_case(ctx: &mut Ctx, rng: &mut Rng) {
    let mv = rng.range(1, 9);
    let st = CnfStyle {
        max_vars: mv,
        max_clauses: rng.range(1, mv + 4),
        max_width: rng.range(1, 5),
        allow_empty_clause: false,
        allow_empty_cnf: false,
        allow_taut: true,
        allow_dup: true,
    };
    let mut cl = random_clauses(&st, rng);
    cl.retain(|c| !c.is_empty());
    if cl.is_empty() {
        return;
    }
    let n = clauses_num_vars(&cl);
    // a quarter of the texts use large, non-contiguous variable numbers (up to 200, around the
    // 64/128 boundaries); lblof[v] is the 0-based label of generator variable v
    let lblof: Vec<usize> = if rng.chance(1, 4) {
        let mut m = random_label_map(n, rng);
        let imax = (0..n).max_by_key(|i| m[*i]).unwrap();
        m.swap(imax, n - 1);
        ctx.count("dimacs_texts_with_large_variable_numbers", 1);
        m
    } else {
        (0..n).collect()
    };
    let top = lblof.iter().max().map(|x| x + 1).unwrap_or(0);
    let dense_of = |l: usize| lblof.iter().position(|x| *x == l);
    // text with 1-based variables, in the literal order of the generator
    let mut text = String::new();
    if rng.bool() {
        text.push_str("c generated by rsdd-mon\n");
    }
    text.push_str(&format!("p cnf {} {}\n", top + rng.below(2), cl.len()));
    for c in &cl {
        for (v, p) in c {
            text.push_str(&format!("{}{}{}", if *p { "" } else { "-" }, lblof[*v] + 1, if rng.chance(1, 8) { "  " } else { " " }));
        }
        text.push_str("0\n");
    }
    let t = clauses_tt(&cl, n);
    let info = json!({"text": text});
    ctx.case_eval(if t.is_trivial() { None } else { Some(crate::rng::hash_str(&text)) });
    // Cnf::from_dimacs: text variable i is label i-1
    let cnf = Cnf::from_dimacs(&text);
    ctx.count("dimacs_parsed", 1);
    let m = cnf.num_vars();
    let got = Tt::from_fn(n, |a| {
        let mut asg: Vec<bool> = vec![false; usize::max(top, m)];
        for v in 0..n {
            asg[lblof[v]] = (a >> v) & 1 == 1;
        }
        cnf.eval(&asg)
    });
    // evaluate structurally too (not through Cnf::eval)
    let got2 = Tt::from_fn(n, |a| cnf.clauses().iter().all(|c| c.iter().any(|l| match dense_of(l.label().value_usize()) {
        Some(v) => ((a >> v) & 1 == 1) == l.polarity(),
        None => false,
    })));
    if m > top || got != t || got2 != t {
        ctx.violation("parse.dimacs.cnf", "Cnf::from_dimacs does not have the models of the text (variable i -> label i-1)",
            json!({"observed": got2.hex(), "expected": t.hex(), "num_vars": m, "input": info}));
    }
    // LogicalExpr::from_dimacs keeps the DIMACS number as the label (S8)
    let le = LogicalExpr::from_dimacs(&text);
    let gle = Tt::from_fn(n, |a| eval_le(&le, &|l: usize| l >= 1 && dense_of(l - 1).map(|v| (a >> v) & 1 == 1).unwrap_or(false)));
    ctx.count("dimacs_expr_parsed", 1);
    if gle != t {
        ctx.violation("parse.dimacs.expr", "LogicalExpr::from_dimacs does not have the models of the text (variable i -> label i)",
            json!({"observed": gle.hex(), "expected": t.hex(), "input": info}));
    } else {
        let lib = Tt::from_fn(n, |a| {
            let mp: std::collections::HashMap<rsdd::repr::VarLabel, bool> =
                (0..n).map(|v| (rsdd::repr::VarLabel::new((lblof[v] + 1) as u64), (a >> v) & 1 == 1)).collect();
            le.eval(&mp)
        });
        ctx.count("library_evaluator_tables", 1);
        if lib != t {
            ctx.violation("parse.dimacs.expr.eval", "the models of the parsed formula according to LogicalExpr::eval are not the models of the text",
                json!({"observed": lib.hex(), "expected": t.hex(), "input": info}));
        }
    }
    // print and re-parse: same clause sets
    let printed = format!("p cnf {} {}{}\n", cnf.num_vars(), cnf.clauses().len(), cnf.to_dimacs());
    let back = Cnf::from_dimacs(&printed);
    ctx.count("dimacs_roundtrips", 1);
    let sets = |c: &Cnf| -> Vec<BTreeSet<(usize, bool)>> {
        c.clauses().iter().map(|cl| cl.iter().map(|l| (l.label().value_usize(), l.polarity())).collect()).collect()
    };
    if sets(&back) != sets(&cnf) {
        ctx.violation("parse.dimacs.roundtrip", "to_dimacs + from_dimacs does not return the same clause sets",
            json!({"printed": printed, "input": info}));
    }
    if ctx.wants_sample() {
        ctx.sample(json!({"regime": "dimacs", "input": info, "function": t.hex()}));
    }
}

/// `Cnf::from_dimacs` on texts with zero counts in the problem line and with empty clauses
fn dimacs_degenerate(ctx: &mut Ctx, rng: &mut Rng) {
    // (declared variables, clauses as 1-based signed numbers)
    let nv = rng.below(5);
    let mut clauses: Vec<Vec<i64>> = Vec::new();
    match rng.below(4) {
        0 => {} // no clause
        1 => clauses.push(vec![]), // only the empty clause
        2 => {
            for _ in 0..rng.range(1, 3) {
                let w = rng.below(3);
                clauses.push((0..w).map(|_| (rng.range(1, usize::max(nv, 1)) as i64) * if rng.bool() { 1 } else { -1 }).collect());
            }
        }
        _ => {
            // what the library itself prints for a conditioned CNF: to_dimacs under the CNF's own counts
            let st = CnfStyle { max_vars: 4, max_clauses: 3, max_width: 2, allow_empty_clause: true, allow_empty_cnf: true, allow_taut: false, allow_dup: false };
            let cl = random_clauses(&st, rng);
            for c in &cl {
                clauses.push(c.iter().map(|(v, p)| (*v as i64 + 1) * if *p { 1 } else { -1 }).collect());
            }
        }
    }
    let used = clauses.iter().flatten().map(|x| x.unsigned_abs() as usize).max().unwrap_or(0);
    let declared = usize::max(used, if clauses.iter().all(|c| c.is_empty()) { nv } else { used });
    let mut text = String::new();
    if rng.chance(1, 3) {
        text.push_str("c degenerate\n");
    }
    text.push_str(&format!("p cnf {} {}\n", declared, clauses.len()));
    for c in &clauses {
        for l in c {
            text.push_str(&format!("{} ", l));
        }
        text.push_str("0\n");
    }
    ctx.count("dimacs_degenerate_texts", 1);
    if clauses.is_empty() {
        ctx.count("dimacs_texts_without_clauses", 1);
    }
    if declared == 0 {
        ctx.count("dimacs_texts_with_zero_variables", 1);
    }
    ctx.case_eval(Some(crate::rng::hash_str(&text)));
    let cnf = Cnf::from_dimacs(&text);
    let got: Vec<BTreeSet<(usize, bool)>> = cnf.clauses().iter().map(|cl| cl.iter().map(|l| (l.label().value_usize(), l.polarity())).collect()).collect();
    let exp: Vec<BTreeSet<(usize, bool)>> = clauses.iter().map(|c| c.iter().map(|l| (l.unsigned_abs() as usize - 1, *l > 0)).collect()).collect();
    let mut g = got.clone();
    g.sort();
    let mut e = exp.clone();
    e.sort();
    if g != e {
        ctx.violation("parse.dimacs.cnf", "Cnf::from_dimacs does not return the clauses of the text (zero counts / empty clauses)",
            json!({"text": text, "observed": format!("{:?}", got), "expected": format!("{:?}", exp)}));
    }
}

fn names(n: usize, rng: &mut Rng) -> Vec<String> {
    // names chosen so that lexicographic (byte) order differs from first-occurrence
    // order and from numeric order: mixed case, digits, different lengths
    let pool = ["B", "a", "A1", "x10", "x9", "x2", "Z", "b", "ab", "aB", "_k", "v0", "V0", "x", "y1", "Y"];
    let mut idx = rng.perm(pool.len());
    idx.truncate(n);
    idx.into_iter().map(|i| pool[i].to_string()).collect()
}

fn sexpr_case(ctx: &mut Ctx, rng: &mut Rng) {
    let n = rng.range(1, 8);
    let e = Ex::random(n, rng.range(1, 6), rng);
    let nm = names(n, rng);
    let text = e.sexpr(&nm);
    // the variables that actually occur, sorted bytewise, get labels 0..k
    let mut used = BTreeSet::new();
    e.vars(&mut used);
    let mut occurring: Vec<String> = used.iter().map(|v| nm[*v].clone()).collect();
    occurring.sort();
    let label_of = |v: usize| occurring.iter().position(|s| *s == nm[v]).unwrap();
    let k = occurring.len();
    // expected table over the k occurring variables, in rsdd's (lexicographic) numbering
    let exp = Tt::from_fn(k, |a| {
        // assignment of generator variable v = bit label_of(v)
        fn ev(e: &Ex, val: &dyn Fn(usize) -> bool) -> bool {
            match e {
                Ex::Lit(v, p) => val(*v) == *p,
                Ex::Not(x) => !ev(x, val),
                Ex::And(x, y) => ev(x, val) && ev(y, val),
                Ex::Or(x, y) => ev(x, val) || ev(y, val),
                Ex::Iff(x, y) => ev(x, val) == ev(y, val),
                Ex::Xor(x, y) => ev(x, val) != ev(y, val),
                Ex::Ite(g, x, y) => {
                    if ev(g, val) {
                        ev(x, val)
                    } else {
                        ev(y, val)
                    }
                }
            }
        }
        ev(&e, &|v: usize| (a >> label_of(v)) & 1 == 1)
    });
    let info = json!({"text": text, "names_sorted": occurring});
    let sx = match serde_sexpr::from_str::<LogicalSExpr>(&text) {
        Ok(s) => s,
        Err(err) => {
            ctx.violation("parse.sexpr.reject", "a well-formed s-expression is rejected", json!({"error": format!("{}", err), "input": info}));
            return;
        }
    };
    ctx.count("sexprs_parsed", 1);
    ctx.case_eval(if exp.is_trivial() { None } else { Some(crate::rng::hash_str(&text)) });
    let mapping = sx.variable_mapping();
    for (i, s) in occurring.iter().enumerate() {
        if mapping.get(s) != Some(&i) {
            ctx.violation("parse.sexpr.mapping", "variable_mapping is not the lexicographic numbering of the occurring names",
                json!({"name": s, "got": mapping.get(s), "expected": i, "input": info}));
        }
    }
    let le = LogicalExpr::from_sexpr(&sx);
    let got = Tt::from_fn(k, |a| eval_le(&le, &|v: usize| (a >> v) & 1 == 1));
    if got != exp {
        ctx.violation("parse.sexpr.models", "parsed s-expression does not have the models of the text under the lexicographic numbering",
            json!({"observed": got.hex(), "expected": exp.hex(), "input": info}));
    } else {
        let lib = lib_eval_tt(&le, k, 0);
        ctx.count("library_evaluator_tables", 1);
        if lib != exp {
            ctx.violation("parse.sexpr.eval", "the models of the parsed formula according to LogicalExpr::eval are not the models of the text",
                json!({"observed": lib.hex(), "expected": exp.hex(), "input": info}));
        }
    }
    if ctx.wants_sample() {
        ctx.sample(json!({"regime": "sexpr", "input": info, "function": exp.hex()}));
    }
}

fn ser_bdd_case(ctx: &mut Ctx, rng: &mut Rng, out: &mut impl Write, case: u64) {
    let mut cfg = random_cfg(rng, 7, false);
    cfg.max_new = 0;
    if cfg.n0 == 0 {
        cfg.n0 = 1;
        cfg.order = vec![0];
    }
    cfg.nops = rng.range(4, 40);
    let n = cfg.n_total();
    let ops = gen_history(&cfg, rng);
    let mut scratch = Ctx::scratch();
    // a quarter of the diagrams live in a manager of up to 200 variables (spread labels)
    let _g = if rng.chance(1, 4) {
        ctx.count("diagrams_over_spread_labels", 1);
        Some(LabelMapGuard::new(random_label_map(cfg.n0, rng)))
    } else {
        None
    };
    let bcfg = crate::bddhist::wide_setup(&cfg).unwrap_or(cfg.clone());
    let labels = label_map();
    with_robdd!(bcfg, b, {
        let ptrs = exec_history_collect(&mut scratch, &cfg, b, &ops);
        let mut w = BddWalker::new(n);
        // constants, single literals, the last results and their negations
        let mut roots: Vec<BddPtr> = vec![BddPtr::PtrTrue, BddPtr::PtrFalse, b.var(lab(0), rng.bool())];
        for p in ptrs.iter().rev().take(4) {
            roots.push(*p);
            roots.push(p.neg());
        }
        for r in roots {
            let t = w.tt(r);
            let s = serde_json::to_string(&BDDSerializer::from_bdd(r)).expect("HARNESS: json");
            let rec = json!({"kind": "bdd", "regime": "ser_bdd", "case": case, "n": n, "json": s, "expected": bits(&t),
                "complemented_root": matches!(r, BddPtr::Compl(_)), "label_of_variable": labels});
            let _ = writeln!(out, "{}", rec);
            ctx.count("bdds_serialised", 1);
            ctx.case_eval(if t.is_trivial() { None } else { Some(crate::rng::mix(t.hash64() ^ crate::rng::hash_str(&s))) });
        }
    });
}

fn ser_sdd_case(ctx: &mut Ctx, rng: &mut Rng, out: &mut impl Write, case: u64) {
    let mut cfg = random_sdd_cfg(rng, 6, true);
    cfg.nops = rng.range(4, 30);
    let n = cfg.n;
    let ops = gen_sdd_history(n, cfg.nops, rng);
    let _g = if rng.chance(1, 4) {
        ctx.count("diagrams_over_spread_labels", 1);
        Some(LabelMapGuard::new(random_label_map(n, rng)))
    } else {
        None
    };
    let labels = label_map();
    let builder = CompressionSddBuilder::new(cfg.vtree.to_rsdd());
    let b = &builder;
    let mut pool: Vec<SddPtr> = vec![SddPtr::PtrFalse, SddPtr::PtrTrue];
    for v in 0..n {
        pool.push(SddPtr::Var(lab(v), true));
    }
    for op in &ops {
        let a = |x: &Arg, pool: &Vec<SddPtr>| -> usize { x.0 % pool.len() };
        macro_rules! g {
            ($x:expr) => {{
                let p = pool[a($x, &pool)];
                if $x.1 {
                    p.neg()
                } else {
                    p
                }
            }};
        }
        let r = match op {
            Op::Var(v, p) => SddPtr::Var(lab(*v), *p),
            Op::Not(x) => g!(x).neg(),
            Op::And(x, y) => b.and(g!(x), g!(y)),
            Op::Or(x, y) => b.or(g!(x), g!(y)),
            Op::Xor(x, y) => b.xor(g!(x), g!(y)),
            Op::Iff(x, y) => b.iff(g!(x), g!(y)),
            Op::Ite(x, y, z) => b.ite(g!(x), g!(y), g!(z)),
            Op::Cond(x, v, val) => b.condition(g!(x), lab(*v), *val),
            Op::Exists(x, v) => b.exists(g!(x), lab(*v)),
            Op::Compose(x, v, y) => b.compose(g!(x), lab(*v), g!(y)),
            _ => panic!("HARNESS: op not defined for SDDs"),
        };
        pool.push(r);
    }
    let mut w = SddWalker::new(n);
    let mut roots: Vec<SddPtr> = vec![SddPtr::PtrTrue, SddPtr::PtrFalse, SddPtr::Var(lab(0), false)];
    for p in pool.iter().rev().take(4) {
        roots.push(*p);
        roots.push(p.neg());
    }
    for r in roots {
        let t = w.tt(r);
        let s = serde_json::to_string(&SDDSerializer::from_sdd(r)).expect("HARNESS: json");
        let rec = json!({"kind": "sdd", "regime": "ser_sdd", "case": case, "n": n, "json": s, "expected": bits(&t),
            "complemented_root": r.is_neg(), "vtree": cfg.vtree.to_json(), "label_of_variable": labels});
        let _ = writeln!(out, "{}", rec);
        ctx.count("sdds_serialised", 1);
        ctx.case_eval(if t.is_trivial() { None } else { Some(crate::rng::mix(t.hash64() ^ crate::rng::hash_str(&s))) });
    }
    let _ = b.vtree_manager();
}

#[allow(dead_code)]
fn unused(_: Value) {}
