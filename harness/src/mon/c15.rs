//! C15 -- CNF-side utilities agree with propositional semantics.
use crate::ctx::Ctx;
use crate::exact::Dy;
use crate::gen::*;
use crate::rng::Rng;
use crate::semi::*;
use crate::tt::Tt;
use rsdd::constants::primes;
use rsdd::repr::{Cnf, CnfHasher, HashedCNF, Literal, PartialModel, VarLabel, VarSet};
use serde_json::{json, Value};
use std::collections::{BTreeSet, HashMap, HashSet};

pub fn run(ctx: &mut Ctx) {
    for case in ctx.cases("cnf", 1500, true) {
        ctx.run_case("cnf", case, cnf_case);
    }
    for case in ctx.cases("edge", 8, false) {
        ctx.run_case("edge", case, |ctx, rng| {
            // the empty formula and formulas made of empty clauses
            let cls: Vec<Clauses> = vec![vec![], vec![vec![]], vec![vec![], vec![]], vec![vec![], vec![(0, true)]], vec![vec![(0, true), (0, false)]]];
            for cl in cls {
                cnf_checks(ctx, rng, &cl);
            }
            ctx.count("edge_cases", 1);
        });
    }
    for case in ctx.cases("models", 600, true) {
        ctx.run_case("models", case, model_case);
    }
    // constructing a CNF from the library's own text format "(-1 || 0 || 2) && (1)"
    // (0-based labels, negation written with a leading '-'): the constructed formula has the
    // models of the text
    for case in ctx.cases("from_string", 300, true) {
        ctx.run_case("from_string", case, from_string_case);
    }
    for case in ctx.cases("literals", 200, true) {
        ctx.run_case("literals", case, literal_case);
    }
    for case in ctx.cases("hasher", 900, true) {
        ctx.run_case("hasher", case, hasher_case);
    }
}

fn from_string_case(ctx: &mut Ctx, rng: &mut Rng) {
    let n = rng.range(1, 7);
    let m = rng.range(1, 6);
    let mut cl: Clauses = Vec::new();
    for _ in 0..m {
        let w = rng.range(1, 4);
        cl.push((0..w).map(|_| (rng.below(n), rng.bool())).collect());
    }
    let text = cl
        .iter()
        .map(|c| format!("({})", c.iter().map(|(v, p)| format!("{}{}", if *p { "" } else { "-" }, v)).collect::<Vec<_>>().join(if rng.bool() { " || " } else { "||" })))
        .collect::<Vec<_>>()
        .join(" && ");
    let nv = clauses_num_vars(&cl);
    let exp = clauses_tt(&cl, nv);
    let cnf = Cnf::from_string(&text);
    ctx.count("cnfs_from_string", 1);
    ctx.case_eval(if exp.is_trivial() { None } else { Some(crate::rng::hash_str(&text)) });
    let got = Tt::from_fn(nv, |a| {
        let asg: Vec<bool> = (0..usize::max(nv, cnf.num_vars())).map(|i| (a >> i) & 1 == 1).collect();
        cnf.clauses().iter().all(|c| c.iter().any(|l| asg[l.label().value_usize()] == l.polarity()))
    });
    if cnf.num_vars() > nv || got != exp {
        ctx.violation("cnf.from_string", "the CNF constructed from the text format does not have the models of the text",
            json!({"text": text, "observed": got.hex(), "expected": exp.hex(), "num_vars": cnf.num_vars()}));
    }
}

fn cnf_case(ctx: &mut Ctx, rng: &mut Rng) {
    let mv = rng.range(1, 8);
    let st = CnfStyle {
        max_vars: mv,
        max_clauses: if rng.chance(1, 6) { rng.range(1, 25) } else { rng.range(1, mv + 3) },
        max_width: rng.range(1, 5),
        allow_empty_clause: true,
        allow_empty_cnf: true,
        allow_taut: true,
        allow_dup: true,
    };
    let cl = random_clauses(&st, rng);
    cnf_checks(ctx, rng, &cl);
}

fn cnf_checks(ctx: &mut Ctx, rng: &mut Rng, cl: &Clauses) {
    let cnf = clauses_to_cnf(cl);
    let n = clauses_num_vars(cl);
    let info = json!({"clauses": clauses_json(cl)});
    let t = clauses_tt(cl, n);
    ctx.count("cnfs", 1);
    ctx.case_eval(if t.is_trivial() { None } else { Some(crate::rng::hash_str(&info.to_string())) });
    // the constructor may normalise (drop duplicates, reorder); what must hold is that the
    // constructed formula has the models of the clause list over variables 0..n
    if cnf.num_vars() > n {
        ctx.violation("cnf.num_vars", "num_vars exceeds the largest label + 1", json!({"got": cnf.num_vars(), "largest_label_plus_one": n, "input": info}));
        return;
    }
    let stored = Tt::from_fn(n, |a| cnf.clauses().iter().all(|c| c.iter().any(|l| ((a >> l.label().value_usize()) & 1 == 1) == l.polarity())));
    if stored != t {
        ctx.violation("cnf.clause_set", "the constructed clause list does not have the models of the given clause list",
            json!({"observed": stored.hex(), "expected": t.hex(), "input": info}));
    }
    // eval on every assignment
    for a in 0..(1usize << n) {
        let asg: Vec<bool> = (0..n).map(|i| (a >> i) & 1 == 1).collect();
        ctx.count("evals", 1);
        if cnf.eval(&asg) != t.get(a) {
            ctx.violation("cnf.eval", "eval disagrees with the clause semantics", json!({"assignment": asg, "input": info}));
            break;
        }
    }
    // conditioning on a literal
    for v in 0..n {
        for p in [false, true] {
            let c = cnf.condition(Literal::new(VarLabel::new(v as u64), p));
            ctx.count("conditions", 1);
            let m = c.num_vars();
            // evaluate the conditioned CNF on assignments of the original variables
            let got = Tt::from_fn(n, |a| {
                let asg: Vec<bool> = (0..usize::max(n, m)).map(|i| (a >> i) & 1 == 1).collect();
                c.eval(&asg)
            });
            if m > n || got != t.cofactor(v, p) {
                ctx.violation("cnf.condition", "condition(lit) is not the restricted formula",
                    json!({"var": v, "value": p, "observed": got.hex(), "expected": t.cofactor(v, p).hex(), "input": info}));
            }
        }
    }
    // brute-force weighted count in two semirings
    let wr: Vec<(OReal, OReal)> = (0..n).map(|_| (OReal(Dy::new(rng.below(9) as i128, 2)), OReal(Dy::new(rng.below(9) as i128, 2)))).collect();
    let got = cnf.wmc(&params(&wr));
    ctx.count("wmcs", 2);
    if !full_sum(&t, &wr).matches(&got) {
        ctx.violation("cnf.wmc.real", "brute-force weighted count differs from the sum over models",
            json!({"observed": got.0, "expected": full_sum(&t, &wr).show(), "input": info}));
    }
    let wf: Vec<(OFf<{ primes::U64_LARGEST }>, OFf<{ primes::U64_LARGEST }>)> = (0..n).map(|_| OFf::random_pair(rng, false)).collect();
    let gotf = cnf.wmc(&params(&wf));
    if !full_sum(&t, &wf).matches(&gotf) {
        ctx.violation("cnf.wmc.field", "brute-force weighted count differs from the sum over models",
            json!({"observed": gotf.value().to_string(), "expected": full_sum(&t, &wf).show(), "input": info}));
    }
    // satisfaction under partial models
    let taut = cl.iter().any(|c| c.iter().any(|(v, p)| c.contains(&(*v, !*p))));
    for _ in 0..6 {
        let k = rng.below(n + 1);
        let mut vs = rng.perm(n);
        vs.truncate(k);
        let asg: Vec<(usize, bool)> = vs.into_iter().map(|v| (v, rng.bool())).collect();
        let lits: Vec<Literal> = asg.iter().map(|(v, p)| Literal::new(VarLabel::new(*v as u64), *p)).collect();
        let pm = PartialModel::from_litvec(&lits, n);
        let mut r = t.clone();
        for (v, p) in &asg {
            r = r.cofactor(*v, *p);
        }
        let all_ext = r.is_true();
        let got = cnf.is_sat_partial(&pm);
        ctx.count("is_sat_partial", 1);
        if got && !all_ext {
            ctx.violation("cnf.is_sat_partial", "reports satisfied although an extension falsifies the CNF",
                json!({"assignment": asg, "input": info}));
        }
        // documented contract: "true if the partial model implies the CNF", i.e. every extension
        // satisfies it -- also when a clause holds only because it contains x and !x over an
        // unassigned x (narrowed S7, finding F15)
        if got != all_ext {
            ctx.violation("cnf.is_sat_partial", "disagrees with 'the partial model implies the CNF' (every extension satisfies it)",
                json!({"assignment": asg, "got": got, "tautological_clause_present": taut, "input": info}));
        }
    }
    if ctx.wants_sample() {
        ctx.sample(json!({"regime": "cnf", "input": info, "function": t.hex()}));
    }
}

fn model_case(ctx: &mut Ctx, rng: &mut Rng) {
    // up to 300 variables, biased to sizes around the 64- and 128-bit word boundaries
    let n = match rng.below(6) {
        0 => rng.range(1, 20),
        1 => rng.range(60, 70),
        2 => rng.range(120, 135),
        3 => rng.range(180, 300),
        _ => rng.range(1, 140),
    };
    if n > 64 {
        ctx.count("models_over_more_than_64_variables", 1);
    }
    let mut pm = PartialModel::new(n);
    let mut model: HashMap<usize, bool> = HashMap::new();
    let mut vs = VarSet::new();
    let mut vs2 = VarSet::new_with_num_vars(n);
    let mut s1: HashSet<usize> = HashSet::new();
    let mut s2: HashSet<usize> = HashSet::new();
    let steps = rng.range(20, 200);
    let mut trace: Vec<Value> = Vec::new();
    let mut snapshot: (PartialModel, HashMap<usize, bool>) = (PartialModel::new(n), HashMap::new());
    for _ in 0..steps {
        let v = rng.below(n);
        let l = VarLabel::new(v as u64);
        ctx.count("model_steps", 1);
        match rng.below(8) {
            0 | 1 | 2 => {
                let b = rng.bool();
                pm.set(l, b);
                model.insert(v, b);
                trace.push(json!(["set", v, b]));
            }
            3 => {
                pm.unset(l);
                model.remove(&v);
                trace.push(json!(["unset", v]));
            }
            4 => {
                vs.insert(l);
                s1.insert(v);
            }
            5 => {
                vs.remove(l);
                s1.remove(&v);
            }
            6 => {
                vs2.insert(l);
                s2.insert(v);
            }
            _ => {
                vs2.remove(l);
                s2.remove(&v);
            }
        }
        if trace.len() > 40 {
            trace.remove(0);
        }
        // partial model observations
        let mut bad: Option<String> = None;
        for x in 0..n {
            let lx = VarLabel::new(x as u64);
            let m = model.get(&x).cloned();
            if pm.get(lx) != m || pm.is_set(lx) != m.is_some() {
                bad = Some(format!("get/is_set of {}", x));
            }
            for p in [false, true] {
                let lit = Literal::new(lx, p);
                if pm.lit_implied(lit) != (m == Some(p)) || pm.lit_neg_implied(lit) != (m == Some(!p)) {
                    bad = Some(format!("lit_implied of {}", x));
                }
            }
        }
        let it: BTreeSet<(usize, bool)> = pm.assignment_iter().map(|l| (l.label().value_usize(), l.polarity())).collect();
        let cnt = pm.assignment_iter().count();
        let want: BTreeSet<(usize, bool)> = model.iter().map(|(k, v)| (*k, *v)).collect();
        if it != want || cnt != want.len() {
            bad = Some("assignment_iter".into());
        }
        // constructors give the same object
        let asg: Vec<Option<bool>> = (0..n).map(|x| model.get(&x).cloned()).collect();
        let pm2 = PartialModel::from_assignments(&asg);
        let lits: Vec<Literal> = want.iter().map(|(v, p)| Literal::new(VarLabel::new(*v as u64), *p)).collect();
        let pm3 = PartialModel::from_litvec(&lits, n);
        for x in 0..n {
            let lx = VarLabel::new(x as u64);
            if pm2.get(lx) != pm.get(lx) || pm3.get(lx) != pm.get(lx) {
                bad = Some("from_assignments / from_litvec".into());
            }
        }
        // difference against an arbitrary other model (the two may disagree on a variable):
        // by definition the literals true here and not true there, per polarity
        if rng.chance(1, 6) {
            snapshot = (pm.clone(), model.clone());
        }
        let got: BTreeSet<(usize, bool)> = pm.difference(&snapshot.0).map(|l| (l.label().value_usize(), l.polarity())).collect();
        let exp: BTreeSet<(usize, bool)> = model.iter().filter(|(k, v)| snapshot.1.get(*k) != Some(*v)).map(|(k, v)| (*k, *v)).collect();
        ctx.count("model_differences", 1);
        if got != exp {
            bad = Some("difference against an earlier snapshot".into());
        }
        let empty = PartialModel::new(n);
        let d: BTreeSet<(usize, bool)> = pm.difference(&empty).map(|l| (l.label().value_usize(), l.polarity())).collect();
        if d != want {
            bad = Some("difference".into());
        }
        if let Some(w) = bad {
            ctx.violation("model.bookkeeping", "PartialModel disagrees with a map model", json!({"what": w, "n": n, "trace": trace}));
            return;
        }
        // variable sets
        let setof = |v: &VarSet| -> HashSet<usize> { v.iter().map(|x| x.value_usize()).collect() };
        let mut bad: Option<&str> = None;
        if setof(&vs) != s1 || setof(&vs2) != s2 || vs.len() != s1.len() || vs.is_empty() != s1.is_empty() {
            bad = Some("contents/len/is_empty");
        }
        for x in 0..n {
            if vs.contains(VarLabel::new(x as u64)) != s1.contains(&x) {
                bad = Some("contains");
            }
        }
        if setof(&vs.union(&vs2)) != s1.union(&s2).cloned().collect() {
            bad = Some("union");
        }
        if setof(&vs.minus(&vs2)) != s1.difference(&s2).cloned().collect() {
            bad = Some("minus");
        }
        if setof(&vs.intersect_varset(&vs2)) != s1.intersection(&s2).cloned().collect() {
            bad = Some("intersect_varset");
        }
        if vs.intersect(&vs2).collect::<HashSet<usize>>() != s1.intersection(&s2).cloned().collect() {
            bad = Some("intersect");
        }
        if vs.difference(&vs2).map(|x| x.value_usize()).collect::<HashSet<usize>>() != s1.difference(&s2).cloned().collect() {
            bad = Some("difference");
        }
        let mut u = vs.clone();
        u.union_with(&vs2);
        if setof(&u) != s1.union(&s2).cloned().collect() {
            bad = Some("union_with");
        }
        if let Some(w) = bad {
            ctx.violation("varset.bookkeeping", "VarSet disagrees with a set model", json!({"what": w, "n": n}));
            return;
        }
    }
    let total: Vec<bool> = (0..n).map(|_| rng.bool()).collect();
    let pt = PartialModel::from_total_model(&total);
    for x in 0..n {
        if pt.get(VarLabel::new(x as u64)) != Some(total[x]) {
            ctx.violation("model.from_total_model", "from_total_model loses an assignment", json!({"n": n}));
        }
    }
    ctx.case_eval(Some(crate::rng::mix(rng.next())));
}

fn literal_case(ctx: &mut Ctx, rng: &mut Rng) {
    for _ in 0..200 {
        let l: u64 = match rng.below(6) {
            0 => rng.below(70) as u64,
            1 => (1u64 << 63) - 1 - rng.below(4) as u64,
            2 => 1u64 << rng.below(63),
            3 => (1u64 << rng.range(1, 62)) - 1,
            _ => rng.next() >> 1,
        };
        for p in [false, true] {
            let lit = Literal::new(VarLabel::new(l), p);
            ctx.count("literals", 1);
            let neg = lit.negated();
            if lit.label().value() != l || lit.polarity() != p || neg.label().value() != l || neg.polarity() == p
                || !lit.implies_true(&lit) || lit.implies_false(&lit) || !lit.implies_false(&neg) || lit.implies_true(&neg)
                || (lit == neg)
            {
                ctx.violation("literal.packing", "Literal does not round-trip label and polarity", json!({"label": l.to_string(), "polarity": p}));
                return;
            }
        }
    }
    ctx.case_eval(Some(crate::rng::mix(rng.next())));
}

/// product of the first `occ` primes fits in u128?
fn prime_product_fits(occ: usize) -> bool {
    let mut prod: u128 = 1;
    let mut p = 1u128;
    let mut found = 0;
    while found < occ {
        p += 1;
        if (2..p).take_while(|d| d * d <= p).all(|d| p % d != 0) {
            found += 1;
            prod = match prod.checked_mul(p) {
                Some(x) => x,
                None => return false,
            };
        }
    }
    true
}

fn hasher_case(ctx: &mut Ctx, rng: &mut Rng) {
    let mv = rng.range(2, 8);
    let st = CnfStyle {
        max_vars: mv,
        max_clauses: rng.range(1, mv + 3),
        max_width: rng.range(1, 4),
        allow_empty_clause: false,
        allow_empty_cnf: false,
        allow_taut: rng.chance(1, 4),
        allow_dup: rng.chance(1, 4),
    };
    let cl = random_clauses(&st, rng);
    let n = clauses_num_vars(&cl);
    if n == 0 {
        return;
    }
    let cnf: Cnf = clauses_to_cnf(&cl);
    // the hasher sees the clauses as rsdd stores them (order of literals, duplicates kept)
    let stored: Vec<Vec<(usize, bool)>> = cnf.clauses().iter().map(|c| c.iter().map(|l| (l.label().value_usize(), l.polarity())).collect()).collect();
    let occ: usize = stored.iter().map(|c| c.len()).sum();
    let injective = prime_product_fits(occ);
    let mut h: CnfHasher = if rng.bool() { cnf.hasher().clone() } else { CnfHasher::new(cnf.clauses(), n) };
    let info = json!({"clauses": clauses_json(&cl)});
    // residual family of a partial model: for every non-unit clause without a true literal,
    // (clause position, positions of its unassigned literal occurrences)
    let residual = |m: &HashMap<usize, bool>| -> Option<Vec<(usize, Vec<usize>)>> {
        let mut r = Vec::new();
        for (ci, c) in stored.iter().enumerate() {
            if c.iter().any(|(v, p)| m.get(v) == Some(p)) {
                continue;
            }
            let un: Vec<usize> = c.iter().enumerate().filter(|(_, (v, _))| !m.contains_key(v)).map(|(i, _)| i).collect();
            if un.is_empty() {
                return None; // falsifies a clause: outside the statement
            }
            if c.len() > 1 {
                r.push((ci, un));
            }
        }
        Some(r)
    };
    let mut by_hash: HashMap<HashedCNF, Vec<(usize, Vec<usize>)>> = HashMap::new();
    let mut by_res: HashMap<Vec<(usize, Vec<usize>)>, HashedCNF> = HashMap::new();
    // decision stack mirrors push/decide/pop
    let mut stack: Vec<Vec<(usize, bool)>> = vec![vec![]];
    let steps = rng.range(10, 120);
    let mut trace: Vec<Value> = Vec::new();
    for _ in 0..steps {
        match rng.below(10) {
            0 | 1 => {
                h.push();
                let top = stack.last().unwrap().clone();
                stack.push(top);
                trace.push(json!("push"));
            }
            2 | 3 if stack.len() > 1 => {
                h.pop();
                stack.pop();
                trace.push(json!("pop"));
            }
            4 | 5 | 6 => {
                let cur: HashMap<usize, bool> = stack.last().unwrap().iter().cloned().collect();
                let free: Vec<usize> = (0..n).filter(|v| !cur.contains_key(v)).collect();
                if free.is_empty() {
                    continue;
                }
                let v = *rng.pick(&free);
                let p = rng.bool();
                h.decide(Literal::new(VarLabel::new(v as u64), p));
                stack.last_mut().unwrap().push((v, p));
                trace.push(json!(["decide", v, p]));
            }
            _ => {}
        }
        if trace.len() > 60 {
            trace.remove(0);
        }
        // hash a model extending the decisions
        let mut m: HashMap<usize, bool> = stack.last().unwrap().iter().cloned().collect();
        for v in 0..n {
            if !m.contains_key(&v) && rng.chance(1, 4) {
                m.insert(v, rng.bool());
            }
        }
        let res = match residual(&m) {
            Some(r) => r,
            None => continue,
        };
        let lits: Vec<Literal> = m.iter().map(|(v, p)| Literal::new(VarLabel::new(*v as u64), *p)).collect();
        let pm = PartialModel::from_litvec(&lits, n);
        let hv = h.hash(&pm);
        ctx.count("hashes", 1);
        match by_res.get(&res) {
            Some(prev) => {
                ctx.count("residual_repeats", 1);
                if *prev != hv {
                    ctx.violation("hasher.same_residual", "equal residual formulas hash differently",
                        json!({"residual": format!("{:?}", res), "trace": trace, "input": info}));
                    return;
                }
            }
            None => {
                by_res.insert(res.clone(), hv.clone());
            }
        }
        if injective {
            match by_hash.get(&hv) {
                Some(prev) => {
                    if *prev != res {
                        ctx.violation("hasher.collision", "different residual formulas hash equally although the prime product fits in 128 bits",
                            json!({"first": format!("{:?}", prev), "second": format!("{:?}", res), "trace": trace, "input": info}));
                        return;
                    }
                }
                None => {
                    by_hash.insert(hv, res);
                }
            }
        } else {
            ctx.count("hashes_large_product", 1);
        }
    }
    ctx.count("hasher_histories", 1);
    ctx.case_eval(Some(crate::rng::hash_str(&info.to_string())));
    if ctx.wants_sample() {
        ctx.sample(json!({"regime": "hasher", "input": info, "trace_tail": trace.iter().rev().take(10).collect::<Vec<_>>(), "distinct_residuals": by_res.len()}));
    }
}
