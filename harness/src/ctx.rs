//! Worker-side bookkeeping: counters, coverage sets, distinct-case hashes, samples,
//! violation events.  Everything a worker learns leaves the process as JSON lines
//! on stdout; the Python driver aggregates, matches known findings and writes
//! evidence.

use crate::rng::Rng;
use serde_json::{json, Value};
use std::cell::RefCell;
use std::collections::{BTreeMap, BTreeSet, HashSet};
use std::io::Write;
use std::panic::{catch_unwind, AssertUnwindSafe};

thread_local! {
    static LAST_PANIC: RefCell<Option<(String, String)>> = const { RefCell::new(None) };
}

pub fn install_panic_hook() {
    std::panic::set_hook(Box::new(|info| {
        let msg = if let Some(s) = info.payload().downcast_ref::<&str>() {
            s.to_string()
        } else if let Some(s) = info.payload().downcast_ref::<String>() {
            s.clone()
        } else {
            "<non-string panic payload>".to_string()
        };
        let loc = info
            .location()
            .map(|l| format!("{}:{}", l.file(), l.line()))
            .unwrap_or_else(|| "<unknown>".to_string());
        LAST_PANIC.with(|p| *p.borrow_mut() = Some((msg, loc)));
    }));
}

pub struct Ctx {
    pub prop: String,
    pub seed: u64,
    pub shard: u64,
    pub nshards: u64,
    pub scale: u64,
    pub tier: String,
    pub profile: String,
    pub only: Option<(String, u64)>,
    pub outdir: String,
    pub counters: BTreeMap<String, u64>,
    pub sets: BTreeMap<String, BTreeSet<String>>,
    pub distinct: HashSet<u64>,
    pub samples: Vec<Value>,
    pub violations: u64,
    pub viol_by_sub: BTreeMap<String, u64>,
    pub harness_errors: u64,
    pub cur_regime: String,
    pub cur_case: u64,
    pub max_samples: usize,
    /// a probe context: violations are counted, not printed (see `Ctx::absorb`)
    pub quiet: bool,
}

impl Ctx {
    /// a throw-away context (used when a history is executed only for its results)
    pub fn scratch() -> Ctx {
        Ctx {
            prop: "scratch".into(),
            seed: 0,
            shard: 0,
            nshards: 1,
            scale: 1,
            tier: "quick".into(),
            profile: "mon".into(),
            only: None,
            outdir: ".".into(),
            counters: BTreeMap::new(),
            sets: BTreeMap::new(),
            distinct: HashSet::new(),
            samples: Vec::new(),
            violations: 0,
            viol_by_sub: BTreeMap::new(),
            harness_errors: 0,
            cur_regime: String::new(),
            cur_case: 0,
            max_samples: 0,
            quiet: false,
        }
    }
    /// take over what a (clean) probe context observed
    pub fn absorb(&mut self, probe: Ctx) {
        for (k, v) in probe.counters {
            if k.starts_with("max_") {
                let e = self.counters.entry(k).or_insert(0);
                if v > *e {
                    *e = v;
                }
            } else {
                *self.counters.entry(k).or_insert(0) += v;
            }
        }
        for (k, v) in probe.sets {
            let s = self.sets.entry(k).or_default();
            for x in v {
                if s.len() < 400 {
                    s.insert(x);
                }
            }
        }
        self.distinct.extend(probe.distinct);
    }
    pub fn count(&mut self, k: &str, by: u64) {
        *self.counters.entry(k.to_string()).or_insert(0) += by;
    }
    pub fn maxc(&mut self, k: &str, v: u64) {
        let e = self.counters.entry(format!("max_{}", k)).or_insert(0);
        if v > *e {
            *e = v;
        }
    }
    pub fn seen(&mut self, set: &str, item: &str) {
        let s = self.sets.entry(set.to_string()).or_default();
        if s.len() < 400 {
            s.insert(item.to_string());
        }
    }
    /// register one evaluated case; `nontrivial_key` is Some(hash) iff the case is
    /// non-trivial by the property's stated rule
    pub fn case_eval(&mut self, nontrivial_key: Option<u64>) {
        self.count("evaluations", 1);
        if let Some(h) = nontrivial_key {
            self.distinct.insert(h);
        }
    }
    pub fn sample(&mut self, v: Value) {
        if self.samples.len() < self.max_samples {
            self.samples.push(v);
        }
    }
    pub fn wants_sample(&self) -> bool {
        self.samples.len() < self.max_samples
    }
    pub fn violation(&mut self, sub: &str, sig: &str, detail: Value) {
        self.violations += 1;
        let per_sub = self.viol_by_sub.entry(sub.to_string()).or_insert(0);
        *per_sub += 1;
        // print at most 3 events per sub-check (all are counted), 300 in total
        if !self.quiet && *per_sub <= 3 && self.viol_by_sub.len() <= 100 {
            let ev = json!({
                "t": "violation", "prop": self.prop, "sub": sub, "sig": sig,
                "regime": self.cur_regime, "case": self.cur_case, "seed": self.seed,
                "profile": self.profile, "detail": detail,
            });
            let out = std::io::stdout();
            let mut l = out.lock();
            let _ = writeln!(l, "{}", ev);
            let _ = l.flush();
        }
    }
    pub fn inconclusive(&mut self, reason: &str) {
        let ev = json!({"t": "inconclusive", "prop": self.prop, "reason": reason,
            "regime": self.cur_regime, "case": self.cur_case});
        println!("{}", ev);
    }
    /// the case ids of `regime` that this shard runs; `total` is the number of cases
    /// of the regime at scale 1 when `scaled`, else an absolute count
    pub fn cases(&self, regime: &str, total: u64, scaled: bool) -> Vec<u64> {
        if let Some((r, c)) = &self.only {
            return if r == regime { vec![*c] } else { vec![] };
        }
        let total = if scaled { total * self.scale } else { total };
        (0..total).filter(|c| c % self.nshards == self.shard).collect()
    }
    /// run one case under catch_unwind. A panic raised inside rsdd on an in-domain
    /// case is a violation; a panic raised by harness code is a harness error
    /// (reported as inconclusive, never as a violation).
    pub fn run_case<F: FnOnce(&mut Ctx, &mut Rng)>(&mut self, regime: &str, case: u64, f: F) {
        self.cur_regime = regime.to_string();
        self.cur_case = case;
        let mut rng = Rng::for_case(self.seed, &self.prop.clone(), regime, case);
        LAST_PANIC.with(|p| *p.borrow_mut() = None);
        crate::caps::clear_weak_used();
        let r = catch_unwind(AssertUnwindSafe(|| f(self, &mut rng)));
        if r.is_err() {
            let (msg, loc) = LAST_PANIC
                .with(|p| p.borrow_mut().take())
                .unwrap_or(("<no message>".into(), "<unknown>".into()));
            if crate::caps::weak_used() && loc.contains("backing_store/bump_table.rs") && msg.contains("overflow") {
                // the u8 probe-distance counter of the unique table overflowed while the harness
                // was degrading the table's hash (fault injection): an artefact of the injection
                self.count("weak_hash_cases_abandoned_u8_probe_counter", 1);
            } else if loc.contains("harness/src") || msg.starts_with("HARNESS") {
                self.harness_errors += 1;
                self.inconclusive(&format!("harness error: {} at {}", msg, loc));
            } else {
                let short: String = msg.chars().take(160).collect();
                let sig = format!("panic@{}", loc);
                self.violation("panic", &sig, json!({"message": short, "location": loc}));
            }
        }
    }
    pub fn finish(&mut self) {
        // distinct hashes go to a side file so the driver can take the exact union
        let path = format!("{}/{}.{}.{}.distinct", self.outdir, self.prop, self.profile, self.shard);
        let mut bytes = Vec::with_capacity(self.distinct.len() * 8);
        for h in &self.distinct {
            bytes.extend_from_slice(&h.to_le_bytes());
        }
        let _ = std::fs::write(&path, bytes);
        let sets: BTreeMap<String, Vec<String>> = self
            .sets
            .iter()
            .map(|(k, v)| (k.clone(), v.iter().cloned().collect()))
            .collect();
        let ev = json!({
            "t": "summary", "prop": self.prop, "shard": self.shard, "profile": self.profile,
            "counters": self.counters, "sets": sets, "distinct_local": self.distinct.len(),
            "distinct_file": path, "samples": self.samples, "violations": self.violations,
            "harness_errors": self.harness_errors,
        });
        println!("{}", ev);
    }
}
