//! BDD operation histories: generation (independent of any builder) and execution
//! on a `RobddBuilder` with either cache, with the C01 / C02 / C16 oracles attached.

use crate::ctx::Ctx;
use crate::rng::Rng;
use crate::tt::Tt;
use crate::walk::{bdd_canon_string, bdd_nodes, BddWalker};
use rsdd::builder::bdd::{BddBuilder, RobddBuilder};
use rsdd::builder::cache::{AllIteTable, Ite, LruIteTable};
use rsdd::builder::BottomUpBuilder;
use rsdd::repr::{BddNode, BddPtr, DDNNFPtr, Literal, PartialModel, VarLabel, VarOrder};
use serde_json::{json, Value};
use std::collections::{HashMap, HashSet};

/// operand = (pool index, negate before use)
pub type Arg = (usize, bool);

#[derive(Clone, Debug)]
pub enum Op {
    Var(usize, bool),
    Not(Arg),
    And(Arg, Arg),
    Or(Arg, Arg),
    Xor(Arg, Arg),
    Iff(Arg, Arg),
    Ite(Arg, Arg, Arg),
    Cond(Arg, usize, bool),
    CondModel(Arg, Vec<(usize, bool)>),
    Exists(Arg, usize),
    Compose(Arg, usize, Arg),
    AndLst(Vec<Arg>),
    OrLst(Vec<Arg>),
    NewVar(bool),
}

impl Op {
    pub fn name(&self) -> &'static str {
        match self {
            Op::Var(..) => "var",
            Op::Not(..) => "negate",
            Op::And(..) => "and",
            Op::Or(..) => "or",
            Op::Xor(..) => "xor",
            Op::Iff(..) => "iff",
            Op::Ite(..) => "ite",
            Op::Cond(..) => "condition",
            Op::CondModel(..) => "condition_model",
            Op::Exists(..) => "exists",
            Op::Compose(..) => "compose",
            Op::AndLst(..) => "and_lst",
            Op::OrLst(..) => "or_lst",
            Op::NewVar(..) => "new_var",
        }
    }
    pub fn to_json(&self) -> Value {
        let a = |x: &Arg| format!("{}{}", if x.1 { "!" } else { "" }, x.0);
        match self {
            Op::Var(v, p) => json!(["var", v, p]),
            Op::Not(x) => json!(["negate", a(x)]),
            Op::And(x, y) => json!(["and", a(x), a(y)]),
            Op::Or(x, y) => json!(["or", a(x), a(y)]),
            Op::Xor(x, y) => json!(["xor", a(x), a(y)]),
            Op::Iff(x, y) => json!(["iff", a(x), a(y)]),
            Op::Ite(x, y, z) => json!(["ite", a(x), a(y), a(z)]),
            Op::Cond(x, v, b) => json!(["condition", a(x), v, b]),
            Op::CondModel(x, m) => json!(["condition_model", a(x), m]),
            Op::Exists(x, v) => json!(["exists", a(x), v]),
            Op::Compose(x, v, y) => json!(["compose", a(x), v, a(y)]),
            Op::AndLst(l) => json!(["and_lst", l.iter().map(a).collect::<Vec<_>>()]),
            Op::OrLst(l) => json!(["or_lst", l.iter().map(a).collect::<Vec<_>>()]),
            Op::NewVar(p) => json!(["new_var", p]),
        }
    }
}

#[derive(Clone, Debug, PartialEq, Eq)]
pub enum CacheKind {
    All,
    Lru,
}

#[derive(Clone, Debug)]
pub struct HistCfg {
    /// variables in the initial order
    pub n0: usize,
    /// variables that may be added at run time
    pub max_new: usize,
    /// order[level] = label  (a permutation of 0..n0)
    pub order: Vec<usize>,
    pub cache: CacheKind,
    pub uniq_cap: Option<usize>,
    pub lru_bits: Option<usize>,
    pub nops: usize,
}

impl HistCfg {
    pub fn n_total(&self) -> usize {
        self.n0 + self.max_new
    }
    pub fn to_json(&self) -> Value {
        json!({"n0": self.n0, "max_new": self.max_new, "order": self.order,
            "cache": format!("{:?}", self.cache), "uniq_cap": self.uniq_cap,
            "lru_bits": self.lru_bits, "nops": self.nops})
    }
}

/// pool layout at the start: [false, true, x0, x1, ... x_{n0-1}]
pub fn initial_pool_len(n0: usize) -> usize {
    2 + n0
}

/// generate a history. Operand choice is biased towards recent results, equal and
/// complementary arguments, constants and literals.
pub fn gen_history(cfg: &HistCfg, rng: &mut Rng) -> Vec<Op> {
    let mut ops = Vec::with_capacity(cfg.nops);
    let mut plen = initial_pool_len(cfg.n0);
    let mut nvars = cfg.n0;
    let mut new_left = cfg.max_new;
    let pick = |rng: &mut Rng, plen: usize| -> Arg {
        let r = rng.below(100);
        let idx = if r < 50 && plen > 8 {
            plen - 1 - rng.below(8)
        } else if r < 60 {
            rng.below(usize::min(plen, 2 + 3)) // constants / first literals
        } else {
            rng.below(plen)
        };
        (idx, rng.chance(1, 3))
    };
    for _ in 0..cfg.nops {
        let a = pick(rng, plen);
        let mut b = pick(rng, plen);
        let mut c = pick(rng, plen);
        // force equal / complementary operands now and then
        match rng.below(14) {
            0 => b = a,
            1 => b = (a.0, !a.1),
            2 => c = a,
            3 => c = (a.0, !a.1),
            4 => c = b,
            5 => c = (b.0, !b.1),
            _ => {}
        }
        let v = if nvars > 0 { rng.below(nvars) } else { 0 };
        let r = rng.below(100);
        let op = if nvars == 0 || (cfg.n0 == 0 && new_left > 0 && rng.chance(1, 3)) {
            if new_left > 0 {
                Op::NewVar(rng.bool())
            } else {
                Op::Not(a)
            }
        } else if r < 4 {
            Op::Var(v, rng.bool())
        } else if r < 7 {
            Op::Not(a)
        } else if r < 21 {
            Op::And(a, b)
        } else if r < 33 {
            Op::Or(a, b)
        } else if r < 41 {
            Op::Xor(a, b)
        } else if r < 49 {
            Op::Iff(a, b)
        } else if r < 67 {
            Op::Ite(a, b, c)
        } else if r < 74 {
            Op::Cond(a, v, rng.bool())
        } else if r < 79 {
            let k = rng.below(nvars + 1);
            let mut vs = rng.perm(nvars);
            vs.truncate(k);
            Op::CondModel(a, vs.into_iter().map(|x| (x, rng.bool())).collect())
        } else if r < 85 {
            Op::Exists(a, v)
        } else if r < 92 {
            Op::Compose(a, v, b)
        } else if r < 95 {
            let k = rng.below(5);
            Op::AndLst((0..k).map(|_| pick(rng, plen)).collect())
        } else if r < 98 {
            let k = rng.below(5);
            Op::OrLst((0..k).map(|_| pick(rng, plen)).collect())
        } else if new_left > 0 {
            Op::NewVar(rng.bool())
        } else {
            Op::Ite(a, b, c)
        };
        if let Op::NewVar(_) = op {
            new_left -= 1;
            nvars += 1;
        }
        plen += 1;
        ops.push(op);
    }
    ops
}

/// what to check while executing
#[derive(Clone, Debug, Default)]
pub struct Checks {
    /// C01: result function == definition; drift of old results
    pub function: bool,
    /// C01 side monitor: standard-triple normalisation keeps the function
    pub std_triple: bool,
    /// C02: canonicity map, shape, table membership
    pub canon: bool,
    /// C16: record the canonical string of every result
    pub record_canon: bool,
    /// keep the result pointers (pool reconstruction)
    pub keep_ptrs: bool,
}

#[derive(Default)]
pub struct HistResult<'a> {
    pub ptrs: Vec<BddPtr<'a>>,
    pub canon: Vec<String>,
    pub grows: u64,
    pub lru_grows: u64,
    pub lru_conflicts: u64,
    pub nodes: usize,
}

fn shape_class(t: &Tt) -> &'static str {
    if t.is_true() {
        "T"
    } else if t.is_false() {
        "F"
    } else {
        "N"
    }
}

/// classify an ite argument triple (for coverage of the standard-triple arms)
fn triple_class(f: BddPtr, g: BddPtr, h: BddPtr, order: &VarOrder) -> String {
    let k = |p: BddPtr| -> char {
        match p {
            BddPtr::PtrTrue => 'T',
            BddPtr::PtrFalse => 'F',
            BddPtr::Reg(_) => 'r',
            BddPtr::Compl(_) => 'c',
        }
    };
    let rel = |a: BddPtr, b: BddPtr| -> char {
        if a == b {
            '='
        } else if a == b.neg() {
            '~'
        } else {
            match (a.var_safe(), b.var_safe()) {
                (Some(x), Some(y)) => {
                    if order.lt(x, y) {
                        '<'
                    } else if x == y {
                        's'
                    } else {
                        '>'
                    }
                }
                _ => '.',
            }
        }
    };
    format!("{}{}{}:{}{}{}", k(f), k(g), k(h), rel(f, g), rel(f, h), rel(g, h))
}

pub fn exec_history<'a, B: Robdd<'a>>(ctx: &mut Ctx, cfg: &HistCfg, b: &'a B, ops: &[Op], checks: &Checks) -> HistResult<'a> {
        {
            {
            let n = cfg.n_total();
            let mut res = HistResult::default();
            let mut walker = BddWalker::new(n);
            let mut pool: Vec<(BddPtr, Tt)> = Vec::new();
            pool.push((b.false_ptr(), Tt::konst(n, false)));
            pool.push((b.true_ptr(), Tt::konst(n, true)));
            for v in 0..cfg.n0 {
                pool.push((b.var(crate::gen::lab(v), true), Tt::var(n, v)));
            }
            // C02 state
            let mut rep: HashMap<Tt, BddPtr> = HashMap::new();
            let mut known_nodes: HashMap<usize, &BddNode> = HashMap::new();
            let mut nvars = cfg.n0;
            // level of every label, kept by the harness itself (initial permutation, then
            // run-time variables appended): the shape oracle must not trust the library's map
            // (indexed by the oracle's dense variable; in the wide regimes the builder's order
            // covers every label and `wide_full` is that order)
            let wide_full: Option<Vec<usize>> = if crate::gen::label_map().is_some() { WIDE_FULL.with(|f| f.borrow().clone()) } else { None };
            let top = wide_full.as_ref().map(|f| f.len()).unwrap_or(cfg.n0);
            let mut levels: Vec<usize> = vec![0; cfg.n0];
            match &wide_full {
                None => {
                    for (lvl, lbl) in cfg.order.iter().enumerate() {
                        levels[*lbl] = lvl;
                    }
                }
                Some(full) => {
                    for v in 0..cfg.n0 {
                        let l = crate::gen::lab(v).value_usize();
                        levels[v] = full.iter().position(|x| *x == l).expect("HARNESS: label missing from the full order");
                    }
                }
            }
            let hash_map = rsdd::repr::create_semantic_hash_map::<{ rsdd::constants::primes::U64_LARGEST }>(usize::max(n, top + cfg.max_new));
            macro_rules! arg {
                ($a:expr) => {{
                    let (p, t) = &pool[$a.0];
                    if $a.1 {
                        (p.neg(), t.not())
                    } else {
                        (*p, t.clone())
                    }
                }};
            }
            for (step, op) in ops.iter().enumerate() {
                ctx.count("ops", 1);
                ctx.count(&format!("op_{}", op.name()), 1);
                let (got, exp): (BddPtr, Tt) = match op {
                    Op::Var(v, p) => (b.var(crate::gen::lab(*v), *p), Tt::lit(n, *v, *p)),
                    Op::Not(a) => {
                        let (p, t) = arg!(a);
                        (b.negate(p), t.not())
                    }
                    Op::And(x, y) => {
                        let (p, t) = arg!(x);
                        let (q, u) = arg!(y);
                        (b.and(p, q), t.and(&u))
                    }
                    Op::Or(x, y) => {
                        let (p, t) = arg!(x);
                        let (q, u) = arg!(y);
                        (b.or(p, q), t.or(&u))
                    }
                    Op::Xor(x, y) => {
                        let (p, t) = arg!(x);
                        let (q, u) = arg!(y);
                        (b.xor(p, q), t.xor(&u))
                    }
                    Op::Iff(x, y) => {
                        let (p, t) = arg!(x);
                        let (q, u) = arg!(y);
                        (b.iff(p, q), t.iff(&u))
                    }
                    Op::Ite(x, y, z) => {
                        let (p, t) = arg!(x);
                        let (q, u) = arg!(y);
                        let (r, w) = arg!(z);
                        if checks.function || checks.std_triple {
                            ctx.seen("ite_arg_classes", &triple_class(p, q, r, &b.order_ref()));
                        }
                        if checks.std_triple {
                            check_std_triple(ctx, &mut walker, &b.order_ref(), p, q, r, &t.ite(&u, &w));
                        }
                        (b.ite(p, q, r), t.ite(&u, &w))
                    }
                    Op::Cond(x, v, val) => {
                        let (p, t) = arg!(x);
                        (b.condition(p, crate::gen::lab(*v), *val), t.cofactor(*v, *val))
                    }
                    Op::CondModel(x, m) => {
                        let (p, t) = arg!(x);
                        let lits: Vec<Literal> =
                            m.iter().map(|(v, val)| Literal::new(crate::gen::lab(*v), *val)).collect();
                        let pm = PartialModel::from_litvec(&lits, top + (nvars - cfg.n0));
                        let mut e = t;
                        for (v, val) in m {
                            e = e.cofactor(*v, *val);
                        }
                        (b.condition_model_(p, &pm), e)
                    }
                    Op::Exists(x, v) => {
                        let (p, t) = arg!(x);
                        (b.exists(p, crate::gen::lab(*v)), t.exists(*v))
                    }
                    Op::Compose(x, v, y) => {
                        let (p, t) = arg!(x);
                        let (q, u) = arg!(y);
                        (b.compose(p, crate::gen::lab(*v), q), t.compose_doc(*v, &u))
                    }
                    Op::AndLst(l) => {
                        let mut ps = Vec::new();
                        let mut e = Tt::konst(n, true);
                        for a in l {
                            let (p, t) = arg!(a);
                            ps.push(p);
                            e = e.and(&t);
                        }
                        (b.and_lst(&ps), e)
                    }
                    Op::OrLst(l) => {
                        let mut ps = Vec::new();
                        let mut e = Tt::konst(n, false);
                        for a in l {
                            let (p, t) = arg!(a);
                            ps.push(p);
                            e = e.or(&t);
                        }
                        (b.or_lst(&ps), e)
                    }
                    Op::NewVar(pol) => {
                        // every other time a handle on the order is held across the call: what it
                        // yields afterwards must be the order as it was (a permutation of the old labels)
                        let (lbl, p) = if (step + nvars) % 2 == 0 {
                            let before: Vec<u64> = b.order_ref().in_order_iter().map(|l| l.value()).collect();
                            let (seen, r) = b.new_var_under_an_order_handle(*pol);
                            ctx.count("order_handles_held_across_new_var", 1);
                            if seen != before {
                                ctx.violation("bdd.order.handle", "a handle on the builder's order taken before new_var does not show the order it was taken from",
                                    json!({"order_before": before, "seen_through_the_handle_afterwards": seen, "cfg": cfg.to_json()}));
                            }
                            r
                        } else {
                            b.new_var_(*pol)
                        };
                        // the new label is the number of variables the builder knew, placed last
                        let want = top + (nvars - cfg.n0);
                        if lbl.value_usize() != want || b.num_vars_() != want + 1 {
                            ctx.violation(
                                "bdd.new_var.label",
                                "new_var label/num_vars",
                                json!({"label": lbl.value_usize(), "expected": want, "num_vars": b.num_vars_(),
                                    "cfg": cfg.to_json()}),
                            );
                        }
                        crate::gen::extend_label_map(want);
                        let v = nvars;
                        nvars += 1;
                        levels.push(want);
                        if b.order_ref().get(lbl) != want || b.order_ref().var_at_level(want) != lbl {
                            ctx.violation(
                                "bdd.new_var.order",
                                "new_var position",
                                json!({"label": lbl.value_usize(), "pos": b.order_ref().get(lbl), "cfg": cfg.to_json()}),
                            );
                        }
                        (p, Tt::lit(n, v, *pol))
                    }
                };
                let got_tt = walker.tt(got);
                if checks.function {
                    let nontrivial = !exp.is_trivial();
                    let key = if nontrivial {
                        let mut h = crate::rng::hash_str(op.name());
                        h = crate::rng::mix(h ^ exp.hash64());
                        for x in &cfg.order {
                            h = crate::rng::mix(h ^ (*x as u64));
                        }
                        h = crate::rng::mix(h ^ (cfg.cache == CacheKind::Lru) as u64);
                        Some(h)
                    } else {
                        None
                    };
                    ctx.case_eval(key);
                    ctx.seen("result_shapes", shape_class(&exp));
                    if got_tt != exp {
                        ctx.violation(
                            &format!("bdd.op.{}", op.name()),
                            &format!("{} wrong function", op.name()),
                            json!({"step": step, "op": op.to_json(), "cfg": cfg.to_json(),
                                "observed": got_tt.hex(), "expected": exp.hex(),
                                "history": ops[..=step].iter().map(|o| o.to_json()).collect::<Vec<_>>()}),
                        );
                    }
                }
                if checks.canon {
                    // histories may interleave queries that annotate nodes (cached hash,
                    // scratch traffic); canonicity must survive them
                    match step % 5 {
                        1 => {
                            let _ = got.cached_semantic_hash(&b.order_ref(), &hash_map);
                            ctx.count("annotating_queries", 1);
                        }
                        3 => {
                            let _ = got.count_nodes();
                            ctx.count("annotating_queries", 1);
                        }
                        _ => {}
                    }
                    check_canon(ctx, cfg, b, got, &got_tt, &mut rep, &mut known_nodes, step, op, &levels);
                }
                if checks.record_canon {
                    res.canon.push(bdd_canon_string(got));
                }
                if checks.keep_ptrs {
                    res.ptrs.push(got);
                }
                // the pool records the *oracle's* function when the function check is
                // on (so one wrong result does not cascade), else what was observed
                pool.push((got, if checks.function { exp } else { got_tt }));

                let last = step + 1 == ops.len();
                if checks.function && (step % 16 == 15 || last) {
                    // history independence: every earlier result still denotes its function
                    let mut fresh = BddWalker::new(n);
                    for (i, (p, t)) in pool.iter().enumerate() {
                        ctx.count("drift_rechecks", 1);
                        if fresh.tt(*p) != *t {
                            ctx.violation(
                                "bdd.drift",
                                "earlier result changed function",
                                json!({"pool_index": i, "after_step": step, "cfg": cfg.to_json()}),
                            );
                            break;
                        }
                    }
                }
                if checks.canon && (step % 32 == 31 || last) {
                    recheck_membership(ctx, cfg, b, &known_nodes, step);
                }
            }
            let (g, lg, lc) = rsdd::verif::take_counters();
            res.grows = g;
            res.lru_grows = lg;
            res.lru_conflicts = lc;
            res.nodes = known_nodes.len();
            ctx.count("unique_table_grows", g);
            ctx.count("lru_grows", lg);
            ctx.count("lru_overwrites", lc);
            ctx.count("histories", 1);
            if ctx.wants_sample() {
                ctx.sample(json!({"cfg": cfg.to_json(),
                    "ops": ops.iter().take(12).map(|o| o.to_json()).collect::<Vec<_>>(),
                    "table_grows": g, "lru_overwrites": lc}));
            }
            res
            }
        }
}

/// C01 side monitor: `Ite::new` must return a triple (plus complement flag) that
/// denotes the same function as ite(f,g,h).
fn check_std_triple(
    ctx: &mut Ctx,
    walker: &mut BddWalker,
    order: &VarOrder,
    f: BddPtr,
    g: BddPtr,
    h: BddPtr,
    expected: &Tt,
) {
    let o = |a: BddPtr, b: BddPtr| match (a, b) {
        (BddPtr::PtrTrue, _) | (BddPtr::PtrFalse, _) => true,
        (_, BddPtr::PtrTrue) | (_, BddPtr::PtrFalse) => false,
        (BddPtr::Reg(na) | BddPtr::Compl(na), BddPtr::Reg(nb) | BddPtr::Compl(nb)) => order.lt(na.var, nb.var),
    };
    let ite = Ite::new(o, f, g, h);
    ctx.count("std_triples", 1);
    let (got, kind) = match ite {
        Ite::IteConst(x) => (walker.tt(x), "const"),
        Ite::IteChoice { f, g, h } => {
            if f.is_neg() || g.is_neg() {
                ctx.violation("bdd.std_triple.form", "standard triple with negated f or g", json!({}));
            }
            (walker.tt(f).ite(&walker.tt(g), &walker.tt(h)), "choice")
        }
        Ite::IteComplChoice { f, g, h } => {
            if f.is_neg() || g.is_neg() {
                ctx.violation("bdd.std_triple.form", "standard triple with negated f or g", json!({}));
            }
            (walker.tt(f).ite(&walker.tt(g), &walker.tt(h)).not(), "compl")
        }
    };
    ctx.seen("std_triple_kinds", kind);
    if got != *expected {
        ctx.violation(
            "bdd.std_triple",
            "standard triple denotes a different function",
            json!({"kind": kind, "observed": got.hex(), "expected": expected.hex(),
                "args": triple_class(f, g, h, order)}),
        );
    }
}

#[allow(clippy::too_many_arguments)]
fn check_canon<'a, B: Robdd<'a>>(
    ctx: &mut Ctx,
    cfg: &HistCfg,
    b: &'a B,
    got: BddPtr<'a>,
    got_tt: &Tt,
    rep: &mut HashMap<Tt, BddPtr<'a>>,
    known: &mut HashMap<usize, &'a BddNode<'a>>,
    step: usize,
    op: &Op,
    levels: &[usize],
) {
    ctx.count("canon_results", 1);
    // (a) same function => same pointer (the other direction is the walker's determinism)
    match rep.get(got_tt) {
        Some(r) => {
            ctx.count("canon_repeat_functions", 1);
            if *r != got || !b.eq(*r, got) {
                ctx.violation(
                    "bdd.canon.duplicate",
                    "two pointers for one function",
                    json!({"step": step, "op": op.to_json(), "function": got_tt.hex(),
                        "first": bdd_canon_string(*r), "second": bdd_canon_string(got), "cfg": cfg.to_json()}),
                );
            }
        }
        None => {
            rep.insert(got_tt.clone(), got);
            ctx.case_eval(if got_tt.is_trivial() { None } else { Some(crate::rng::mix(got_tt.hash64() ^ order_hash(&cfg.order))) });
        }
    }
    // a complemented pointer and its regular twin must be complementary entries too
    if let Some(r) = rep.get(&got_tt.not()) {
        if *r != got.neg() {
            ctx.violation(
                "bdd.canon.duplicate_neg",
                "negation of a known function is a different node",
                json!({"step": step, "op": op.to_json(), "function": got_tt.hex(), "cfg": cfg.to_json()}),
            );
        }
    }
    // (b) shape of every reachable node, (c) table membership of new nodes
    for nd in bdd_nodes(got) {
        let k = nd as *const BddNode as usize;
        if known.contains_key(&k) {
            continue;
        }
        known.insert(k, nd);
        ctx.count("nodes_shape_checked", 1);
        let mut bad: Option<&str> = None;
        let level_of = |l: VarLabel| levels.get(crate::gen::unlab(l)).cloned();
        match level_of(nd.var) {
            None => bad = Some("node on a variable that no operand mentions"),
            Some(lvl) => {
                for child in [nd.low, nd.high] {
                    if let Some(cv) = child.var_safe() {
                        if level_of(cv).map(|c| c <= lvl).unwrap_or(true) {
                            bad = Some("order violated on an edge");
                        }
                    }
                }
            }
        }
        if nd.low == nd.high {
            bad = Some("node with identical children");
        }
        if matches!(nd.high, BddPtr::Compl(_)) {
            bad = Some("complemented high edge");
        }
        if matches!(nd.high, BddPtr::PtrFalse) {
            bad = Some("constant-false high edge");
        }
        if let Some(why) = bad {
            ctx.violation(
                "bdd.shape",
                why,
                json!({"step": step, "op": op.to_json(), "node_var": nd.var.value(),
                    "diagram": bdd_canon_string(got), "cfg": cfg.to_json()}),
            );
        }
        let again = b.get_or_insert(BddNode::new(nd.var, nd.low, nd.high));
        ctx.count("membership_lookups", 1);
        if again != BddPtr::Reg(nd) {
            ctx.violation(
                "bdd.table.membership",
                "lookup of a stored node returned another address",
                json!({"step": step, "when": "fresh", "cfg": cfg.to_json()}),
            );
        }
    }
}

fn recheck_membership<'a, B: Robdd<'a>>(
    ctx: &mut Ctx,
    cfg: &HistCfg,
    b: &'a B,
    known: &HashMap<usize, &'a BddNode<'a>>,
    step: usize,
) {
    for nd in known.values() {
        ctx.count("membership_lookups", 1);
        let again = b.get_or_insert(BddNode::new(nd.var, nd.low, nd.high));
        if again != BddPtr::Reg(nd) {
            ctx.violation(
                "bdd.table.membership",
                "lookup of a stored node returned another address",
                json!({"step": step, "when": "recheck", "known_nodes": known.len(), "cfg": cfg.to_json()}),
            );
            return;
        }
    }
}

fn order_hash(o: &[usize]) -> u64 {
    let mut h = 7u64;
    for x in o {
        h = crate::rng::mix(h ^ (*x as u64));
    }
    h
}

/// the inherent `RobddBuilder` methods the monitors need, without naming the cache type
pub trait Robdd<'a>: BddBuilder<'a> {
    /// the builder's current order (a copy: `RobddBuilder::order` returned a reference behind a
    /// `RefCell`'s back before fix F21 and returns a snapshot since; `.clone()` serves both)
    fn order_ref(&self) -> VarOrder;
    fn new_var_(&'a self, pol: bool) -> (VarLabel, BddPtr<'a>);
    /// adds a variable at run time while a handle on the order (taken before) is alive, and
    /// returns what the old handle's iterator yields afterwards
    fn new_var_under_an_order_handle(&'a self, pol: bool) -> (Vec<u64>, (VarLabel, BddPtr<'a>));
    fn num_vars_(&self) -> usize;
    fn condition_model_(&'a self, p: BddPtr<'a>, m: &PartialModel) -> BddPtr<'a>;
    fn smooth_(&'a self, p: BddPtr<'a>, n: usize) -> BddPtr<'a>;
}
thread_local! {
    /// wide regimes: the builder's order over every label (set by run_history)
    pub static WIDE_FULL: std::cell::RefCell<Option<Vec<usize>>> = const { std::cell::RefCell::new(None) };
    static NEWVAR_CALLS: std::cell::Cell<u64> = const { std::cell::Cell::new(0) };
}
macro_rules! impl_robdd {
    ($cache:ident) => {
        impl<'a> Robdd<'a> for RobddBuilder<'a, $cache<BddPtr<'a>>> {
            fn order_ref(&self) -> VarOrder {
                #[allow(clippy::clone_on_copy, noop_method_call)]
                self.order().clone()
            }
            fn new_var_under_an_order_handle(&'a self, pol: bool) -> (Vec<u64>, (VarLabel, BddPtr<'a>)) {
                let handle = self.order();
                let it = handle.in_order_iter();
                let r = self.new_var_(pol);
                let seen: Vec<u64> = it.map(|l| l.value()).collect();
                (seen, r)
            }
            fn new_var_(&'a self, pol: bool) -> (VarLabel, BddPtr<'a>) {
                // the three run-time entry points, in turn
                let k = NEWVAR_CALLS.with(|c| {
                    c.set(c.get() + 1);
                    c.get()
                });
                match (k % 3, pol) {
                    (0, _) => self.new_var(pol),
                    (_, true) => self.new_pos(),
                    (_, false) => self.new_neg(),
                }
            }
            fn num_vars_(&self) -> usize {
                self.num_vars()
            }
            fn condition_model_(&'a self, p: BddPtr<'a>, m: &PartialModel) -> BddPtr<'a> {
                self.condition_model(p, m)
            }
            fn smooth_(&'a self, p: BddPtr<'a>, n: usize) -> BddPtr<'a> {
                self.smooth(p, n)
            }
        }
    };
}
impl_robdd!(AllIteTable);
impl_robdd!(LruIteTable);

/// create a builder of the configured kind (with the configured hook capacities)
/// and run `$body` with `$b` bound to a reference to it
#[macro_export]
macro_rules! with_robdd {
    ($cfg:expr, $b:ident, $body:block) => {{
        crate::caps::set_unique($cfg.uniq_cap);
        crate::caps::set_lru_bits($cfg.lru_bits);
        let _ = rsdd::verif::take_counters();
        let order_lbls: Vec<rsdd::repr::VarLabel> =
            $cfg.order.iter().map(|x| rsdd::repr::VarLabel::new(*x as u64)).collect();
        let vo = rsdd::repr::VarOrder::new(&order_lbls);
        match $cfg.cache {
            $crate::bddhist::CacheKind::All => {
                let identity = $cfg.order.iter().enumerate().all(|(i, x)| i == *x);
                let builder = if identity && $cfg.order.len() % 2 == 0 {
                    // the library's own constructor for the default order
                    rsdd::builder::bdd::RobddBuilder::<rsdd::builder::cache::AllIteTable<rsdd::repr::BddPtr>>::new_with_linear_order($cfg.order.len())
                } else {
                    rsdd::builder::bdd::RobddBuilder::<rsdd::builder::cache::AllIteTable<rsdd::repr::BddPtr>>::new(vo)
                };
                crate::caps::set_unique(None);
                crate::caps::set_lru_bits(None);
                let $b = &builder;
                $body
            }
            $crate::bddhist::CacheKind::Lru => {
                let identity = $cfg.order.iter().enumerate().all(|(i, x)| i == *x);
                let builder = if identity && $cfg.order.len() % 2 == 0 {
                    rsdd::builder::bdd::RobddBuilder::<rsdd::builder::cache::LruIteTable<rsdd::repr::BddPtr>>::new_with_linear_order($cfg.order.len())
                } else {
                    rsdd::builder::bdd::RobddBuilder::<rsdd::builder::cache::LruIteTable<rsdd::repr::BddPtr>>::new(vo)
                };
                crate::caps::set_unique(None);
                crate::caps::set_lru_bits(None);
                let $b = &builder;
                $body
            }
        }
    }};
}

/// run a history on a fresh builder; the builder is dropped afterwards, so the
/// result carries no pointers
/// wide regimes (a label map is set): dense variable i is label map[i]; the returned builder
/// configuration has an order that covers every label up to the largest, in which the dense
/// variables keep the relative order cfg.order (recorded in WIDE_FULL for exec_history)
pub fn wide_setup(cfg: &HistCfg) -> Option<HistCfg> {
    crate::gen::label_map()?;
    crate::gen::fit_label_map(cfg.n0);
    let full = crate::gen::full_label_order_det(&cfg.order);
    WIDE_FULL.with(|f| *f.borrow_mut() = Some(full.clone()));
    Some(HistCfg { n0: full.len(), order: full, ..cfg.clone() })
}

pub fn run_history(ctx: &mut Ctx, cfg: &HistCfg, ops: &[Op], checks: &Checks) -> HistStats {
    if let Some(bcfg) = wide_setup(cfg) {
        let saved = crate::gen::label_map();
        let r = with_robdd!(bcfg, b, {
            let r = exec_history(ctx, cfg, b, ops, checks);
            HistStats { canon: r.canon, grows: r.grows, lru_grows: r.lru_grows, lru_conflicts: r.lru_conflicts, nodes: r.nodes }
        });
        // run-time variables extended the map; a second run of the same history starts afresh
        crate::gen::set_label_map(saved);
        return r;
    }
    with_robdd!(cfg, b, {
        let r = exec_history(ctx, cfg, b, ops, checks);
        HistStats { canon: r.canon, grows: r.grows, lru_grows: r.lru_grows, lru_conflicts: r.lru_conflicts, nodes: r.nodes }
    })
}

#[derive(Default)]
pub struct HistStats {
    pub canon: Vec<String>,
    pub grows: u64,
    pub lru_grows: u64,
    pub lru_conflicts: u64,
    pub nodes: usize,
}

/// execute a history without checks and return the result pointers
pub fn exec_history_collect<'a, B: Robdd<'a>>(ctx: &mut Ctx, cfg: &HistCfg, b: &'a B, ops: &[Op]) -> Vec<BddPtr<'a>> {
    let checks = Checks { keep_ptrs: true, ..Default::default() };
    exec_history(ctx, cfg, b, ops, &checks).ptrs
}

/// a random configuration for the "short random" regime
pub fn random_cfg(rng: &mut Rng, max_n: usize, hostile: bool) -> HistCfg {
    let n0 = rng.range(1, max_n);
    let max_new = if rng.chance(1, 3) { rng.range(1, 2) } else { 0 };
    let n0 = if n0 + max_new > max_n { max_n - max_new } else { n0 };
    // now and then a manager that starts without any variable: everything is added at run time
    let (n0, max_new) = if max_n >= 3 && rng.chance(1, 15) { (0, rng.range(1, 3)) } else { (n0, max_new) };
    let cache = if rng.bool() { CacheKind::All } else { CacheKind::Lru };
    let (uniq_cap, lru_bits) = if hostile {
        (Some(*rng.pick(&[2usize, 4, 8, 16, 64])), Some(rng.below(5)))
    } else if rng.chance(1, 2) {
        (Some(*rng.pick(&[64usize, 256, 1024])), Some(rng.range(2, 8)))
    } else {
        (Some(1024), Some(8))
    };
    HistCfg {
        n0,
        max_new,
        order: rng.perm(n0),
        cache,
        uniq_cap,
        lru_bits,
        nops: 0,
    }
}

#[allow(dead_code)]
pub fn unused(_: HashSet<u8>) {}
