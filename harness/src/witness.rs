//! Recorded witnesses of a hash collision of `SATSolver::cur_hash` when the product of the
//! literal primes was reduced modulo 2^128 (finding F12, found by a bug-hunting sub-agent with a
//! generalised-birthday search; see DESIGN.md section 5).  The CNF shapes are fixed, so the k-th
//! literal occurrence always gets the k-th prime and the index sets below are reproducible.

/// witness 1: CNF (x0|x1) & 64 clauses of 12 fresh positive literals; falsifying the variables
/// of S or those of T (disjoint) gave the same hash
pub const S: &[usize] = &[
    2, 3, 4, 11, 14, 15, 20, 23, 24, 28, 32, 34, 36, 40, 46, 48, 51, 53, 54, 55,
    56, 60, 61, 70, 71, 73, 79, 80, 81, 82, 85, 87, 88, 91, 94, 97, 102, 103, 106, 110,
    112, 115, 119, 120, 123, 126, 128, 131, 134, 135, 136, 142, 144, 147, 148, 150, 151, 152, 153, 154,
    156, 157, 161, 174, 175, 180, 183, 186, 193, 195, 196, 197, 199, 201, 206, 207, 209, 210, 215, 217,
    221, 224, 228, 231, 233, 235, 240, 242, 243, 246, 249, 253, 257, 261, 263, 264, 267, 271, 272, 275,
    276, 284, 291, 294, 296, 300, 301, 306, 309, 312, 316, 317, 318, 321, 323, 324, 325, 326, 330, 331,
    335, 337, 340, 343, 345, 349, 352, 356, 358, 360, 363, 369, 371, 376, 378, 380, 381, 382, 385, 389,
    395, 402, 404, 412, 413, 414, 416, 417, 418, 424, 426, 427, 429, 433, 436, 447, 449, 451, 455, 461,
    468, 473, 476, 478, 487, 491, 495, 502, 505, 507, 510, 511, 512, 516, 518, 521, 522, 525, 526, 528,
    532, 534, 535, 538, 540, 544, 550, 553, 555, 557, 558, 561, 562, 565, 568, 571, 573, 576, 578, 580,
    581, 584, 585, 586, 587, 589, 593, 595, 599, 603, 608, 615, 618, 622, 631, 633, 640, 646, 653, 655,
    660, 668, 670, 678, 681, 692, 695, 696, 699, 700, 701, 710, 712, 715, 716, 719, 720, 725, 730, 731,
    734, 735, 736, 738, 742, 749, 754, 758, 761, 762, 765, 769,
];
pub const T: &[usize] = &[
    6, 7, 16, 17, 19, 25, 26, 29, 31, 33, 35, 38, 41, 44, 45, 47, 57, 58, 59, 64,
    65, 67, 69, 75, 76, 77, 78, 84, 89, 92, 93, 98, 99, 100, 101, 105, 107, 109, 111, 113,
    114, 116, 117, 118, 129, 132, 138, 139, 140, 141, 146, 159, 160, 163, 164, 166, 168, 176, 177, 178,
    181, 184, 189, 190, 192, 198, 200, 205, 208, 211, 212, 214, 216, 222, 225, 229, 232, 234, 236, 238,
    239, 241, 244, 247, 248, 252, 254, 258, 260, 262, 265, 266, 268, 274, 277, 278, 279, 281, 282, 285,
    286, 287, 288, 290, 295, 297, 299, 305, 310, 313, 314, 315, 320, 322, 327, 332, 333, 336, 338, 341,
    342, 344, 346, 347, 348, 351, 355, 357, 364, 365, 366, 368, 370, 372, 373, 377, 383, 384, 387, 390,
    391, 394, 396, 397, 398, 403, 405, 407, 411, 419, 423, 432, 434, 437, 438, 439, 441, 450, 456, 457,
    458, 459, 466, 467, 469, 470, 474, 475, 477, 480, 481, 482, 483, 488, 489, 490, 494, 499, 500, 506,
    513, 515, 517, 519, 523, 529, 530, 531, 537, 539, 542, 545, 546, 556, 560, 563, 567, 577, 583, 588,
    590, 592, 601, 607, 609, 610, 611, 612, 613, 617, 619, 621, 623, 628, 629, 632, 636, 638, 639, 641,
    643, 647, 648, 649, 650, 651, 652, 656, 657, 658, 661, 662, 666, 667, 672, 673, 675, 676, 677, 682,
    684, 686, 689, 691, 694, 702, 703, 704, 706, 707, 708, 711, 713, 714, 717, 718, 723, 724, 727, 732,
    737, 739, 743, 744, 745, 748, 750, 751, 755, 757, 763,
];
pub const GROUPS: usize = 64;
pub const WIDTH: usize = 12;

/// witness 2: variable x (label 0) and 769 clauses (L_c | q_c | r_c), L_c = x for c in POS, !x
/// for c in NEG, a fresh variable otherwise: deciding x=T or x=F gave the same hash, and the
/// top-down compiler returned a diagram of CNF|x=T for CNF
pub const POS: &[usize] = &[
    2, 11, 12, 13, 14, 15, 17, 18, 19, 21, 22, 23, 27, 32, 35, 36, 37, 44, 45, 48,
    49, 56, 58, 60, 64, 67, 69, 70, 71, 80, 82, 83, 89, 90, 94, 98, 99, 104, 106, 107,
    116, 121, 122, 124, 127, 129, 130, 132, 136, 137, 141, 145, 150, 153, 156, 158, 160, 167, 174, 175,
    180, 183, 189, 190, 196, 197, 203, 205, 206, 210, 215, 216, 218, 224, 229, 237, 240, 248, 249, 258,
    267, 269, 272, 273, 274, 275, 280, 287, 290, 292, 300, 302, 303, 306, 309, 310, 317, 321, 322, 324,
    326, 327, 328, 329, 332, 334, 338, 340, 344, 349, 350, 351, 355, 358, 361, 366, 371, 373, 375, 377,
    378, 379, 390, 394, 397, 399, 402, 403, 408, 411, 413, 414, 419, 434, 437, 440, 441, 444, 445, 451,
    454, 459, 463, 468, 471, 472, 473, 476, 477, 478, 481, 484, 486, 491, 494, 495, 498, 509, 513, 523,
    524, 525, 530, 532, 535, 539, 540, 545, 546, 547, 548, 553, 554, 562, 563, 567, 571, 572, 574, 575,
    579, 589, 592, 600, 601, 602, 604, 605, 607, 608, 614, 617, 618, 619, 622, 628, 639, 640, 642, 646,
    648, 651, 652, 654, 657, 661, 662, 663, 664, 667, 681, 683, 684, 685, 686, 692, 694, 701, 704, 707,
    718, 719, 722, 723, 726, 732, 734, 737, 738, 744, 748, 749, 752, 753, 754, 757, 762, 763, 764, 765,
];
pub const NEG: &[usize] = &[
    1, 4, 5, 8, 10, 16, 20, 24, 25, 28, 29, 30, 33, 34, 38, 39, 46, 50, 53, 59,
    62, 66, 75, 76, 84, 86, 93, 100, 101, 109, 113, 118, 119, 120, 123, 126, 128, 131, 133, 134,
    135, 138, 139, 147, 148, 149, 152, 154, 155, 159, 163, 168, 171, 172, 178, 179, 182, 186, 187, 188,
    191, 192, 193, 195, 200, 204, 212, 213, 217, 219, 220, 226, 227, 231, 233, 234, 235, 239, 241, 242,
    245, 246, 253, 259, 261, 262, 263, 265, 268, 276, 277, 294, 311, 312, 313, 315, 316, 320, 323, 325,
    331, 333, 335, 341, 342, 343, 346, 352, 356, 359, 367, 369, 370, 372, 374, 376, 380, 384, 385, 386,
    387, 388, 389, 393, 395, 396, 401, 405, 406, 407, 409, 410, 418, 420, 421, 422, 427, 428, 430, 431,
    435, 436, 442, 447, 450, 453, 462, 464, 465, 466, 467, 469, 470, 474, 479, 482, 483, 485, 487, 496,
    501, 503, 505, 506, 507, 511, 517, 526, 528, 529, 531, 533, 538, 543, 549, 552, 555, 565, 573, 576,
    577, 578, 581, 582, 585, 586, 587, 590, 591, 593, 594, 595, 599, 609, 612, 613, 615, 616, 620, 626,
    629, 630, 632, 637, 659, 660, 666, 669, 670, 672, 676, 678, 679, 687, 688, 691, 696, 697, 702, 703,
    708, 710, 712, 713, 714, 716, 721, 724, 725, 727, 730, 733, 735, 736, 739, 740, 755, 759, 760, 761,
    768,
];
pub const NCLAUSES: usize = 769;

pub type RawCnf = Vec<Vec<(usize, bool)>>;

pub fn witness1() -> RawCnf {
    let mut raw: RawCnf = vec![vec![(0, true), (1, true)]];
    for g in 0..GROUPS {
        raw.push((0..WIDTH).map(|j| (2 + g * WIDTH + j, true)).collect());
    }
    raw
}

/// the CNF and, per clause, the labels (q_c, r_c)
pub fn witness2() -> (RawCnf, Vec<(usize, usize)>) {
    let mut raw = Vec::new();
    let mut qr = Vec::new();
    let mut next = 1;
    for c in 0..NCLAUSES {
        let first = if POS.contains(&c) {
            (0, true)
        } else if NEG.contains(&c) {
            (0, false)
        } else {
            next += 1;
            (next - 1, true)
        };
        raw.push(vec![first, (next, true), (next + 1, true)]);
        qr.push((next, next + 1));
        next += 2;
    }
    (raw, qr)
}

/// residual formula under a partial assignment: for every clause without a true literal the
/// sorted set of its unassigned literals; as a sorted, de-duplicated list of clauses
pub fn residual(raw: &RawCnf, model: &[Option<bool>]) -> Vec<Vec<(usize, bool)>> {
    let mut out = Vec::new();
    for c in raw {
        let mut sat = false;
        let mut rest = Vec::new();
        for (v, p) in c {
            match model[*v] {
                Some(b) => sat |= b == *p,
                None => rest.push((*v, *p)),
            }
        }
        if !sat {
            rest.sort();
            rest.dedup();
            out.push(rest);
        }
    }
    out.sort();
    out.dedup();
    out
}

/// witness 3 (finding F17): a collision of the *repaired* hash (products modulo the prime
/// 2^127 - 1), constructed by a sub-agent with discrete logarithms (2^127 - 2 is smooth) and a
/// generalised-birthday search over the sign choices.  One character per clause, in clause order:
/// `A` = (x0 | x1 | x2), `B` = (!x0 | x3 | x4); the CNF denotes x0 ? (x3|x4) : (x1|x2).  The
/// product of the primes of the x1/x2 occurrences equals that of the x3/x4 occurrences modulo
/// 2^127 - 1, so the states after deciding x0 and after deciding !x0 have the same `cur_hash()`
/// although their residual formulas differ.
pub const LAYOUT3: &str = concat!(
    "BBBABABBBBBBBBBBBBABBAAABABBABAAAABAABAABABABBBBABABBABABABBBBBABBBABBAABBABABAAAABBBBABBBAAAABB",
    "BBAABAABBBBBBBAABBBAAABABABBAAAAAABAAABABAABBBBBBBAAAABABBAAAABAAABBBBAABBBBBBABBBBABBBABABAAAAB",
    "AABABBABBAAAABABBBABBABBAAAABBABBABAAAAAABBBABBAAAAABABBAAABABBBBBAAABAABBAABBBBBABBBAAABBAABBBB",
    "ABBBBBBABABABAAAAABBABBBBBABABABBAAABAAABBABABBBBAAABBBABAAAAABBBBABAAAABAAABABBBAABBBAABBBBAAAB",
    "BABABABABBBBBABBBABBBBBBBAAAABAAABBBABABBBABAAABBBAAABAABBAAAAAABBAAAABBBBBBAABABAABABAABBAABBAB",
    "AAAAABAABAABBBABBABAABBBABABAABABAABBABABAABBBAAABBAAABABAABBABABBBABABAAAABAABBABBABBABAAABABBB",
    "AABAABBABBAAAABABBBBBABAAAABABBABBBBABBBBBAAABBBAAABBBBAABBAAABAABABABBAAAAABBBBBBAABAABABBAABBB",
    "AABAAABABBBAABAABBBAABABAAAAABBAABBBBABBBAABABBAAAABBBBBBBABBBAAABBABABABABAABBABBAAAAABBAABAAAB",
    "ABBBAAABABABBBABBBBAABBABBBABBBBAAAABBBBBBAABABABABAAABAABAABBABABBABABAAABAABABBABBBAABBBBBAABA",
    "AAAABAAABBABAABBAABAAABAAABABBBAAABBBAAABBBBABBAAAAABBBBBABAAABBBABBAAABBBBBAAAABBBAAABBBAABABAB",
    "BBBABBBAABBBAABABABBAABABAABABAAAAAAABBABABAABABABBBAABAABABBBAAAAABABBBBAABABAAABBABBBAABBAABAA",
    "AABABBAABAABABAABABAAABAAAAAABBABAAAAAAAABBAABBBBBAABBBBBABBAABAAAAAAAABAAAABBBAAAAAAAAAABABABBB",
    "BABBBABBAAABAABBBBBBAAABBAAABBBABABBABAABABABAABAAAABAAAAAAABABAABBBABBBAAABBABBBAAAABBABBBBBBBA",
    "ABAABAAAABABABABBAABABBABBBAAAAAABAABBBABABABAABABBBABBAABBAABBBABABBBBABBABAABAAABABBBAAAAABAAB",
    "BBABBBABAABABBABAABBABAABAABBBAABBAAABAABABABBABBBBBBBBBABABABBBBBBBABAAABAAAABBBAAAAAAAABBABBAA",
    "ABBABAABABBBABBAAABAAABBBABABABABABABABAAAAAAABBAABBBBAABAAAAAAABBBAAABABAABBBBABAAABABBBAAAABBA",
    "BBABABAABBABBAABABBABAABAABAABABBABAAAAAAAABABAABBAABABABBABABBABBABBABBBBBAABABABABAAABAAAAABBB",
    "AAABBBABBBBABBAABBAABAABAABBBBAABBABABABABBAAAABBBAABBBBBBBABBBBBABBBABABABBBABBABAABABABBABBBAA",
    "BABBAABAAAABABAABAABAAAABBBABBBBAABBABBABBBABABBAABBBBBAAAABAABBBABBAAABABABAABABABABABBBBBBABBA",
    "AAABABBAABABABBABBABBAAABABABABBBBABBBBAABABABBABAAAAABBABBAAABABABBBBABAABABAABABBAAABBAABABBAA",
    "ABBAABBBABAAAAAAABBBABBBAAAAABABABBBABBABBBBBBABBABBBBAAABABBABABBAABBBBAAABABABABBBBBBAAAAABBBB",
    "ABBBBAABABBBAAABBAABBAABBBBBBBBBBAAAAABABAAAAABBABBABBBBBABBABBABAAAAABABBABBBAABBAAAAABAAAABBAB",
    "BBBBAAABAABAABABBAAABBBAABBAAABBABABABABABABAAABAAAABBAAABABABBB",
);

pub fn witness3() -> RawCnf {
    LAYOUT3
        .chars()
        .map(|ch| if ch == 'A' { vec![(0, true), (1, true), (2, true)] } else { vec![(0, false), (3, true), (4, true)] })
        .collect()
}

/// witnesses 4 and 5 (finding F18): collisions of the 64-bit *semantic* hash, computed by two
/// bug-hunting sub-agents from the weights that `create_semantic_hash_map` produced when its
/// random generator was seeded with the constant 101249 (the hash is linear in the model set, so
/// a collision is a 4-list generalised-birthday problem: 25-70 s).  A model is the integer whose
/// bit i is the value of variable i.
/// Witness 4: two functions of x0..x6 with disjoint model sets and one hash.
pub const SEM_F: [usize; 25] = [0, 1, 5, 7, 8, 9, 13, 14, 15, 17, 18, 19, 20, 22, 32, 35, 36, 39, 40, 41, 42, 43, 44, 45, 51];
pub const SEM_G: [usize; 18] = [64, 67, 70, 71, 73, 74, 75, 76, 77, 79, 82, 86, 96, 97, 98, 103, 111, 116];
/// Witness 5: y-models over x1..x6 (bit j = value of x(j+1)); the sums of the model weights over
/// PLUS and over MINUS agree, so F = all but MINUS and G = all but PLUS have one hash.  The CNF
/// "if x0 then F else G" has 30 clauses of 7 literals.
pub const SEM_PLUS: [usize; 14] = [7, 8, 19, 21, 26, 32, 35, 40, 41, 43, 49, 54, 59, 61];
pub const SEM_MINUS: [usize; 16] = [3, 13, 16, 23, 27, 33, 34, 37, 42, 45, 46, 50, 52, 57, 60, 62];

pub fn witness5() -> RawCnf {
    let exclude = |xpol: bool, m: usize| -> Vec<(usize, bool)> {
        let mut c = vec![(0usize, xpol)];
        for j in 0..6 {
            c.push((j + 1, (m >> j) & 1 == 0));
        }
        c
    };
    let mut raw: RawCnf = Vec::new();
    for m in SEM_MINUS {
        raw.push(exclude(false, m));
    }
    for m in SEM_PLUS {
        raw.push(exclude(true, m));
    }
    raw
}
