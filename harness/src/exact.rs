//! Exact reference arithmetic, independent of rsdd's semiring code:
//! dyadic rationals (every finite f64 is one), modular arithmetic that cannot
//! overflow, and oracle-side mirrors of the shipped semirings.

use std::cmp::Ordering;

// ------------------------------------------------------------------ dyadic rationals

/// value = num / 2^exp  (normalised: num odd or exp == 0)
#[derive(Clone, Copy, Debug, PartialEq, Eq, Hash)]
pub struct Dy {
    pub num: i128,
    pub exp: u32,
}

impl Dy {
    pub fn new(num: i128, exp: u32) -> Dy {
        let mut d = Dy { num, exp };
        d.norm();
        d
    }
    pub fn int(v: i128) -> Dy {
        Dy { num: v, exp: 0 }
    }
    fn norm(&mut self) {
        if self.num == 0 {
            self.exp = 0;
            return;
        }
        while self.exp > 0 && self.num % 2 == 0 {
            self.num /= 2;
            self.exp -= 1;
        }
    }
    pub fn add(self, o: Dy) -> Dy {
        if self.num == 0 {
            return o;
        }
        if o.num == 0 {
            return self;
        }
        let e = self.exp.max(o.exp);
        let a = self.num.checked_shl(e - self.exp).expect("HARNESS: dyadic overflow");
        let b = o.num.checked_shl(e - o.exp).expect("HARNESS: dyadic overflow");
        Dy::new(a.checked_add(b).expect("HARNESS: dyadic overflow"), e)
    }
    pub fn neg(self) -> Dy {
        Dy::new(-self.num, self.exp)
    }
    pub fn sub(self, o: Dy) -> Dy {
        self.add(o.neg())
    }
    pub fn mul(self, o: Dy) -> Dy {
        Dy::new(self.num.checked_mul(o.num).expect("HARNESS: dyadic overflow"), self.exp + o.exp)
    }
    pub fn cmp(self, o: Dy) -> Ordering {
        let d = self.sub(o);
        d.num.cmp(&0)
    }
    pub fn max(self, o: Dy) -> Dy {
        if self.cmp(o) == Ordering::Less {
            o
        } else {
            self
        }
    }
    pub fn is_zero(self) -> bool {
        self.num == 0
    }
    /// exact conversion of a finite f64
    pub fn from_f64(x: f64) -> Option<Dy> {
        if !x.is_finite() {
            return None;
        }
        if x == 0.0 {
            return Some(Dy::int(0));
        }
        let bits = x.to_bits();
        let sign: i128 = if bits >> 63 == 1 { -1 } else { 1 };
        let e = ((bits >> 52) & 0x7ff) as i32;
        let frac = (bits & ((1u64 << 52) - 1)) as i128;
        let (m, e2) = if e == 0 { (frac, -1074) } else { (frac | (1i128 << 52), e - 1075) };
        if e2 >= 0 {
            if e2 > 60 {
                return None;
            }
            Some(Dy::new(sign * (m << e2), 0))
        } else {
            Some(Dy::new(sign * m, (-e2) as u32))
        }
    }
    /// does the value fit a f64 exactly (<= 53 significant bits, moderate exponent)?
    pub fn fits_f64(self) -> bool {
        let a = self.num.unsigned_abs();
        let bits = 128 - a.leading_zeros();
        bits <= 53 && self.exp < 1000
    }
    pub fn to_f64(self) -> f64 {
        // exact: halving never rounds (no powi: its precision is unspecified)
        let mut x = self.num as f64;
        for _ in 0..self.exp {
            x *= 0.5;
        }
        x
    }
    pub fn show(self) -> String {
        if self.exp == 0 {
            format!("{}", self.num)
        } else {
            format!("{}/2^{}", self.num, self.exp)
        }
    }
}

/// does the f64 equal the dyadic exactly?
pub fn f64_is(x: f64, d: Dy) -> bool {
    match Dy::from_f64(x) {
        Some(y) => y == d,
        None => false,
    }
}

// ------------------------------------------------------------------ modular arithmetic

pub fn addmod(a: u128, b: u128, p: u128) -> u128 {
    let a = a % p;
    let b = b % p;
    // a + b may overflow only for p > 2^127; not the case for any exported prime
    let s = a.wrapping_add(b);
    if s < a || s >= p {
        s.wrapping_sub(p)
    } else {
        s
    }
}

pub fn submod(a: u128, b: u128, p: u128) -> u128 {
    let a = a % p;
    let b = b % p;
    if a >= b {
        a - b
    } else {
        p - (b - a)
    }
}

/// double-and-add: never overflows for p < 2^127
pub fn mulmod(a: u128, b: u128, p: u128) -> u128 {
    let mut a = a % p;
    let mut b = b % p;
    let mut r: u128 = 0;
    while b > 0 {
        if b & 1 == 1 {
            r = addmod(r, a, p);
        }
        a = addmod(a, a, p);
        b >>= 1;
    }
    r
}

#[cfg(test)]
mod tests {
    use super::*;
    #[test]
    fn dyadic() {
        let a = Dy::new(3, 2); // 3/4
        let b = Dy::new(5, 3); // 5/8
        assert_eq!(a.add(b), Dy::new(11, 3));
        assert_eq!(a.mul(b), Dy::new(15, 5));
        assert!(f64_is(0.75, a));
        assert!(f64_is(0.75 * 0.625, a.mul(b)));
        assert!(f64_is(-2.5, Dy::new(-5, 1)));
        assert!(f64_is(1024.0, Dy::int(1024)));
        assert_eq!(Dy::from_f64(0.1).unwrap().to_f64(), 0.1);
    }
    #[test]
    fn modular() {
        let p: u128 = 79016979402926483817096290621;
        assert_eq!(mulmod(p - 1, p - 1, p), 1);
        assert_eq!(mulmod(2, (p + 1) / 2, p), 1);
        assert_eq!(submod(3, 5, 7), 5);
        assert_eq!(addmod(6, 6, 7), 5);
        let q: u128 = 1000001;
        for a in [0u128, 1, 2, 500000, 1000000] {
            for b in [0u128, 1, 999999, 1000000] {
                assert_eq!(mulmod(a, b, q), (a * b) % q);
            }
        }
    }
}
