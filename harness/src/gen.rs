//! Generators shared by the monitors: vtrees, CNFs, expression trees.

use crate::rng::Rng;
use crate::tt::Tt;
use rsdd::repr::{Cnf, Literal, LogicalExpr, VTree, VarLabel};
use serde_json::{json, Value};

// ------------------------------------------------------------------ vtrees

#[derive(Clone, Debug, PartialEq, Eq, Hash)]
pub enum Vt {
    Leaf(usize),
    Node(Box<Vt>, Box<Vt>),
}

impl Vt {
    pub fn to_rsdd(&self) -> VTree {
        match self {
            Vt::Leaf(v) => VTree::new_leaf(lab(*v)),
            Vt::Node(l, r) => VTree::new_node(Box::new(l.to_rsdd()), Box::new(r.to_rsdd())),
        }
    }
    pub fn leaves(&self) -> Vec<usize> {
        match self {
            Vt::Leaf(v) => vec![*v],
            Vt::Node(l, r) => {
                let mut a = l.leaves();
                a.extend(r.leaves());
                a
            }
        }
    }
    pub fn size(&self) -> usize {
        match self {
            Vt::Leaf(_) => 1,
            Vt::Node(l, r) => 1 + l.size() + r.size(),
        }
    }
    pub fn to_json(&self) -> Value {
        match self {
            Vt::Leaf(v) => json!(v),
            Vt::Node(l, r) => json!([l.to_json(), r.to_json()]),
        }
    }
    pub fn shape_string(&self) -> String {
        match self {
            Vt::Leaf(_) => "x".to_string(),
            Vt::Node(l, r) => format!("({}{})", l.shape_string(), r.shape_string()),
        }
    }
    /// nodes in in-order (left, node, right): the indexing rsdd's manager uses
    pub fn inorder(&self) -> Vec<&Vt> {
        fn rec<'a>(t: &'a Vt, out: &mut Vec<&'a Vt>) {
            match t {
                Vt::Leaf(_) => out.push(t),
                Vt::Node(l, r) => {
                    rec(l, out);
                    out.push(t);
                    rec(r, out);
                }
            }
        }
        let mut v = Vec::new();
        rec(self, &mut v);
        v
    }
    pub fn right_linear(labels: &[usize]) -> Vt {
        if labels.len() == 1 {
            Vt::Leaf(labels[0])
        } else {
            Vt::Node(Box::new(Vt::Leaf(labels[0])), Box::new(Vt::right_linear(&labels[1..])))
        }
    }
    pub fn left_linear(labels: &[usize]) -> Vt {
        if labels.len() == 1 {
            Vt::Leaf(labels[0])
        } else {
            let k = labels.len() - 1;
            Vt::Node(Box::new(Vt::left_linear(&labels[..k])), Box::new(Vt::Leaf(labels[k])))
        }
    }
    pub fn balanced(labels: &[usize]) -> Vt {
        if labels.len() == 1 {
            Vt::Leaf(labels[0])
        } else {
            let (l, r) = labels.split_at(labels.len() / 2);
            Vt::Node(Box::new(Vt::balanced(l)), Box::new(Vt::balanced(r)))
        }
    }
    pub fn random(labels: &[usize], rng: &mut Rng) -> Vt {
        if labels.len() == 1 {
            Vt::Leaf(labels[0])
        } else {
            let k = rng.range(1, labels.len() - 1);
            let (l, r) = labels.split_at(k);
            Vt::Node(Box::new(Vt::random(l, rng)), Box::new(Vt::random(r, rng)))
        }
    }
    /// all tree shapes over the given label sequence (Catalan many)
    pub fn all_shapes(labels: &[usize]) -> Vec<Vt> {
        if labels.len() == 1 {
            return vec![Vt::Leaf(labels[0])];
        }
        let mut out = Vec::new();
        for k in 1..labels.len() {
            let ls = Vt::all_shapes(&labels[..k]);
            let rs = Vt::all_shapes(&labels[k..]);
            for l in &ls {
                for r in &rs {
                    out.push(Vt::Node(Box::new(l.clone()), Box::new(r.clone())));
                }
            }
        }
        out
    }
}

/// a random vtree over labels 0..n of a random family; returns (family name, tree)
pub fn random_vtree(n: usize, rng: &mut Rng) -> (&'static str, Vt) {
    let labels = rng.perm(n);
    match rng.below(5) {
        0 => ("right_linear", Vt::right_linear(&labels)),
        1 => ("left_linear", Vt::left_linear(&labels)),
        2 => ("balanced", Vt::balanced(&labels)),
        _ => ("random", Vt::random(&labels, rng)),
    }
}

// ------------------------------------------------------------------ CNFs

/// clause list as (label, polarity) pairs, the harness's own view of a CNF
pub type Clauses = Vec<Vec<(usize, bool)>>;

thread_local! {
    /// "wide" regimes: dense oracle variable i is the rsdd label LABMAP[i] (labels spread over
    /// up to a few hundred indices, most of them unused); None = identity
    static LABMAP: std::cell::RefCell<Option<Vec<usize>>> = const { std::cell::RefCell::new(None) };
}
/// sets a label map for the current scope (reset on drop, also while unwinding)
pub struct LabelMapGuard;
impl LabelMapGuard {
    pub fn new(m: Vec<usize>) -> LabelMapGuard {
        set_label_map(Some(m));
        LabelMapGuard
    }
}
impl Drop for LabelMapGuard {
    fn drop(&mut self) {
        set_label_map(None);
    }
}
/// restrict the current map to the n dense variables of an input and give the largest label to
/// variable n-1 (which occurs in the input), so that every dense variable below n stays inside
/// the label range the rsdd object knows, as it does without a map
pub fn fit_label_map(n: usize) {
    LABMAP.with(|x| {
        if let Some(m) = x.borrow_mut().as_mut() {
            m.truncate(n);
            if n > 0 {
                let imax = (0..n).max_by_key(|i| m[*i]).unwrap();
                m.swap(imax, n - 1);
            }
        }
    });
}
pub fn set_label_map(m: Option<Vec<usize>>) {
    LABMAP.with(|x| *x.borrow_mut() = m);
}
pub fn label_map() -> Option<Vec<usize>> {
    LABMAP.with(|x| x.borrow().clone())
}
/// the rsdd label of dense variable v
pub fn lab(v: usize) -> VarLabel {
    LABMAP.with(|x| match &*x.borrow() {
        Some(m) => VarLabel::new(m[v] as u64),
        None => VarLabel::new(v as u64),
    })
}
/// the dense variable of an rsdd label (a label that is not in the map comes back as a
/// number no oracle knows, so that the comparison it takes part in fails)
pub fn unlab(l: VarLabel) -> usize {
    LABMAP.with(|x| match &*x.borrow() {
        Some(m) => m.iter().position(|y| *y == l.value_usize()).unwrap_or(1_000_000 + l.value_usize()),
        None => l.value_usize(),
    })
}
/// wide regimes: an order over every label 0..=max(map) in which the dense variables keep the
/// relative order `dense_order` and the unused labels are interleaved pseudo-randomly
pub fn full_label_order(dense_order: &[usize], rng: &mut Rng) -> Vec<usize> {
    let m = label_map().expect("HARNESS: full_label_order without a label map");
    let top = m.iter().max().map(|x| x + 1).unwrap_or(1);
    let mut rest: Vec<usize> = (0..top).filter(|l| !m.contains(l)).collect();
    rng.shuffle(&mut rest);
    let mut act: Vec<usize> = dense_order.iter().rev().map(|v| m[*v]).collect();
    let mut full = Vec::new();
    while !act.is_empty() || !rest.is_empty() {
        if !act.is_empty() && (rest.is_empty() || rng.chance(1, 8)) {
            full.push(act.pop().unwrap());
        } else {
            full.push(rest.pop().unwrap());
        }
    }
    full
}
/// deterministic variant (seeded by the map and the order), for code without a generator at hand
pub fn full_label_order_det(dense_order: &[usize]) -> Vec<usize> {
    let m = label_map().expect("HARNESS: full_label_order_det without a label map");
    let mut r = Rng::for_case(crate::rng::hash_str(&format!("{:?}{:?}", m, dense_order)), "wide", "order", 0);
    full_label_order(dense_order, &mut r)
}
/// a variable created at run time: dense variable map.len() gets `label`
pub fn extend_label_map(label: usize) {
    LABMAP.with(|x| {
        if let Some(m) = x.borrow_mut().as_mut() {
            m.push(label);
        }
    });
}
/// wide regimes: a weight table over every label: the dense variables' weights at their labels,
/// `filler` everywhere else
pub fn spread_weights<W: Clone>(w: &[W], filler: W) -> Vec<W> {
    match label_map() {
        None => w.to_vec(),
        Some(m) => {
            let top = m.iter().max().map(|x| x + 1).unwrap_or(1);
            let mut out = vec![filler; top];
            for (v, l) in m.iter().enumerate() {
                if v < w.len() {
                    out[*l] = w[v].clone();
                }
            }
            out
        }
    }
}

/// a random spread of n dense variables over up to 200 labels, biased to the word boundaries
pub fn random_label_map(n: usize, rng: &mut Rng) -> Vec<usize> {
    let top = usize::max(n + 1, *rng.pick(&[66usize, 70, 129, 140, 200]));
    let mut pool: Vec<usize> = (0..top).collect();
    rng.shuffle(&mut pool);
    let mut lab: Vec<usize> = pool[..n].to_vec();
    if rng.bool() {
        lab.sort();
    }
    for (i, b) in [63usize, 64, 127, 128].iter().enumerate() {
        if *b < top && i < n && rng.bool() && !lab.contains(b) {
            lab[i] = *b;
        }
    }
    lab
}

pub fn clauses_to_cnf(cl: &Clauses) -> Cnf {
    let v: Vec<Vec<Literal>> = cl
        .iter()
        .map(|c| c.iter().map(|(v, p)| Literal::new(lab(*v), *p)).collect())
        .collect();
    Cnf::new(&v)
}

/// independent evaluation of a clause list (set-theoretic definition)
pub fn clauses_tt(cl: &Clauses, n: usize) -> Tt {
    Tt::from_fn(n, |a| cl.iter().all(|c| c.iter().any(|(v, p)| ((a >> v) & 1 == 1) == *p)))
}

pub fn clauses_json(cl: &Clauses) -> Value {
    json!(cl
        .iter()
        .map(|c| c.iter().map(|(v, p)| if *p { *v as i64 + 1 } else { -(*v as i64 + 1) }).collect::<Vec<_>>())
        .collect::<Vec<_>>())
}

#[derive(Clone, Debug)]
pub struct CnfStyle {
    pub max_vars: usize,
    pub max_clauses: usize,
    pub max_width: usize,
    pub allow_empty_clause: bool,
    pub allow_empty_cnf: bool,
    pub allow_taut: bool,
    pub allow_dup: bool,
}

/// random CNF: units, duplicates, complementary literals, unused indices, empty
/// clauses / empty formula as the style allows. Returns (clauses, number of
/// variables = max label + 1 as rsdd computes it, at least `min_n`).
pub fn random_clauses(style: &CnfStyle, rng: &mut Rng) -> Clauses {
    let n = rng.range(1, style.max_vars);
    let m = if style.allow_empty_cnf && rng.chance(1, 40) { 0 } else { rng.range(1, style.max_clauses) };
    let shape = rng.below(6);
    let mut cl: Clauses = Vec::new();
    for i in 0..m {
        let w = match shape {
            0 => rng.range(1, 2),
            1 => 3.min(style.max_width),
            _ => rng.range(1, style.max_width),
        };
        let mut c: Vec<(usize, bool)> = Vec::new();
        if style.allow_empty_clause && rng.chance(1, 60) {
            cl.push(c);
            continue;
        }
        for _ in 0..w {
            let v = match shape {
                // implication chain flavour: neighbouring variables
                2 => (i + rng.below(2)) % n,
                // two clusters (disconnected components)
                3 => {
                    if i % 2 == 0 {
                        rng.below((n + 1) / 2)
                    } else {
                        n / 2 + rng.below(n - n / 2)
                    }
                }
                _ => rng.below(n),
            };
            c.push((v, rng.bool()));
        }
        if style.allow_dup && rng.chance(1, 10) && !c.is_empty() {
            let x = c[rng.below(c.len())];
            c.push(x);
        }
        if style.allow_taut && rng.chance(1, 12) && !c.is_empty() {
            let x = c[rng.below(c.len())];
            c.push((x.0, !x.1));
        }
        if !style.allow_taut {
            // drop complementary pairs
            let mut d: Vec<(usize, bool)> = Vec::new();
            for l in c {
                if !d.iter().any(|x| x.0 == l.0 && x.1 != l.1) {
                    d.push(l);
                }
            }
            c = d;
        }
        if !style.allow_dup {
            c.sort();
            c.dedup();
        }
        cl.push(c);
    }
    if style.allow_dup && m > 1 && rng.chance(1, 8) {
        let x = cl[rng.below(cl.len())].clone();
        cl.push(x);
    }
    cl
}

pub fn clauses_num_vars(cl: &Clauses) -> usize {
    cl.iter().flat_map(|c| c.iter().map(|(v, _)| v + 1)).max().unwrap_or(0)
}

// ------------------------------------------------------------------ expressions

#[derive(Clone, Debug)]
pub enum Ex {
    Lit(usize, bool),
    Not(Box<Ex>),
    And(Box<Ex>, Box<Ex>),
    Or(Box<Ex>, Box<Ex>),
    Iff(Box<Ex>, Box<Ex>),
    Xor(Box<Ex>, Box<Ex>),
    Ite(Box<Ex>, Box<Ex>, Box<Ex>),
}

impl Ex {
    pub fn random(n: usize, depth: usize, rng: &mut Rng) -> Ex {
        if depth == 0 || rng.chance(1, 5) {
            return Ex::Lit(rng.below(n), rng.bool());
        }
        let d = depth - 1;
        match rng.below(7) {
            0 => Ex::Not(Box::new(Ex::random(n, d, rng))),
            1 | 2 => Ex::And(Box::new(Ex::random(n, d, rng)), Box::new(Ex::random(n, d, rng))),
            3 => Ex::Or(Box::new(Ex::random(n, d, rng)), Box::new(Ex::random(n, d, rng))),
            4 => Ex::Iff(Box::new(Ex::random(n, d, rng)), Box::new(Ex::random(n, d, rng))),
            5 => Ex::Xor(Box::new(Ex::random(n, d, rng)), Box::new(Ex::random(n, d, rng))),
            _ => Ex::Ite(
                Box::new(Ex::random(n, d, rng)),
                Box::new(Ex::random(n, d, rng)),
                Box::new(Ex::random(n, d, rng)),
            ),
        }
    }
    pub fn tt(&self, n: usize) -> Tt {
        match self {
            Ex::Lit(v, p) => Tt::lit(n, *v, *p),
            Ex::Not(e) => e.tt(n).not(),
            Ex::And(a, b) => a.tt(n).and(&b.tt(n)),
            Ex::Or(a, b) => a.tt(n).or(&b.tt(n)),
            Ex::Iff(a, b) => a.tt(n).iff(&b.tt(n)),
            Ex::Xor(a, b) => a.tt(n).xor(&b.tt(n)),
            Ex::Ite(a, b, c) => a.tt(n).ite(&b.tt(n), &c.tt(n)),
        }
    }
    pub fn to_rsdd(&self) -> LogicalExpr {
        match self {
            Ex::Lit(v, p) => LogicalExpr::Literal(*v, *p),
            Ex::Not(e) => LogicalExpr::Not(Box::new(e.to_rsdd())),
            Ex::And(a, b) => LogicalExpr::And(Box::new(a.to_rsdd()), Box::new(b.to_rsdd())),
            Ex::Or(a, b) => LogicalExpr::Or(Box::new(a.to_rsdd()), Box::new(b.to_rsdd())),
            Ex::Iff(a, b) => LogicalExpr::Iff(Box::new(a.to_rsdd()), Box::new(b.to_rsdd())),
            Ex::Xor(a, b) => LogicalExpr::Xor(Box::new(a.to_rsdd()), Box::new(b.to_rsdd())),
            Ex::Ite(a, b, c) => LogicalExpr::Ite {
                guard: Box::new(a.to_rsdd()),
                thn: Box::new(b.to_rsdd()),
                els: Box::new(c.to_rsdd()),
            },
        }
    }
    /// s-expression text with the given variable names
    pub fn sexpr(&self, names: &[String]) -> String {
        match self {
            Ex::Lit(v, true) => format!("(Var {})", names[*v]),
            Ex::Lit(v, false) => format!("(Not (Var {}))", names[*v]),
            Ex::Not(e) => format!("(Not {})", e.sexpr(names)),
            Ex::And(a, b) => format!("(And {} {})", a.sexpr(names), b.sexpr(names)),
            Ex::Or(a, b) => format!("(Or {} {})", a.sexpr(names), b.sexpr(names)),
            Ex::Iff(a, b) => format!("(Iff {} {})", a.sexpr(names), b.sexpr(names)),
            Ex::Xor(a, b) => format!("(Xor {} {})", a.sexpr(names), b.sexpr(names)),
            Ex::Ite(a, b, c) => format!("(Ite {} {} {})", a.sexpr(names), b.sexpr(names), c.sexpr(names)),
        }
    }
    pub fn vars(&self, out: &mut std::collections::BTreeSet<usize>) {
        match self {
            Ex::Lit(v, _) => {
                out.insert(*v);
            }
            Ex::Not(e) => e.vars(out),
            Ex::And(a, b) | Ex::Or(a, b) | Ex::Iff(a, b) | Ex::Xor(a, b) => {
                a.vars(out);
                b.vars(out);
            }
            Ex::Ite(a, b, c) => {
                a.vars(out);
                b.vars(out);
                c.vars(out);
            }
        }
    }
    pub fn size(&self) -> usize {
        match self {
            Ex::Lit(..) => 1,
            Ex::Not(e) => 1 + e.size(),
            Ex::And(a, b) | Ex::Or(a, b) | Ex::Iff(a, b) | Ex::Xor(a, b) => 1 + a.size() + b.size(),
            Ex::Ite(a, b, c) => 1 + a.size() + b.size() + c.size(),
        }
    }
}
