//! Central place for the capacity hooks. In "small tables" mode (env
//! RSDD_MON_SMALL_TABLES=1, used by the Miri legs, where zeroing the library's
//! default 131072-slot tables would take minutes) "library default" is replaced by
//! small capacities, so every builder the monitors create is cheap.
use std::cell::Cell;

thread_local! {
    static SMALL: Cell<bool> = const { Cell::new(false) };
}

pub fn init() {
    let small = std::env::var("RSDD_MON_SMALL_TABLES").map(|v| v == "1").unwrap_or(false);
    SMALL.with(|s| s.set(small));
    reset();
}

pub fn small() -> bool {
    SMALL.with(|s| s.get())
}

pub fn set_unique(cap: Option<usize>) {
    rsdd::verif::set_unique_table_capacity(if cap.is_none() && small() { Some(16) } else { cap });
}

pub fn set_lru_bits(bits: Option<usize>) {
    rsdd::verif::set_lru_ite_capacity_bits(if bits.is_none() && small() { Some(4) } else { bits });
}

/// back to the library defaults (or to the small defaults in small-tables mode)
pub fn reset() {
    set_unique(None);
    set_lru_bits(None);
}
