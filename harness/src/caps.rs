//! Central place for the capacity hooks. In "small tables" mode (env
//! RSDD_MON_SMALL_TABLES=1, used by the Miri legs, where zeroing the library's
//! default 131072-slot tables would take minutes) "library default" is replaced by
//! small capacities, so every builder the monitors create is cheap.
use std::cell::Cell;

thread_local! {
    static SMALL: Cell<bool> = const { Cell::new(false) };
    static WEAK_USED: Cell<bool> = const { Cell::new(false) };
}

/// has the current case degraded the unique tables' hash (sticky until `clear_weak_used`)?
pub fn weak_used() -> bool {
    WEAK_USED.with(|s| s.get())
}

pub fn clear_weak_used() {
    WEAK_USED.with(|s| s.set(false));
}

/// number of hash classes for the unique tables.  The library counts probe distances in a u8
/// (known limit, DESIGN 6.7): with overflow checks (profile `mon`) exceeding it panics, which
/// `Ctx::run_case` recognises and counts as an abandoned case; without (profile `monrel`) it
/// would wrap silently and corrupt the table -- an artefact of the injection, not of rsdd --
/// so there the classes are numerous enough that no class comes anywhere near 255 nodes.
pub fn weak_classes(rng: &mut crate::rng::Rng, profile: &str, many_nodes: bool) -> u64 {
    match (profile == "monrel", many_nodes) {
        (false, false) => *rng.pick(&[16u64, 32, 64, 128]),
        (false, true) => *rng.pick(&[256u64, 1024]),
        (true, false) => *rng.pick(&[256u64, 512]),
        (true, true) => *rng.pick(&[2048u64, 8192]),
    }
}

pub fn init() {
    let small = std::env::var("RSDD_MON_SMALL_TABLES").map(|v| v == "1").unwrap_or(false);
    SMALL.with(|s| s.set(small));
    reset();
}

pub fn small() -> bool {
    SMALL.with(|s| s.get())
}

pub fn set_unique(cap: Option<usize>) {
    rsdd::verif::set_unique_table_capacity(if cap.is_none() && small() { Some(16) } else { cap });
}

pub fn set_lru_bits(bits: Option<usize>) {
    rsdd::verif::set_lru_ite_capacity_bits(if bits.is_none() && small() { Some(4) } else { bits });
}

/// back to the library defaults (or to the small defaults in small-tables mode)
pub fn reset() {
    set_unique(None);
    set_lru_bits(None);
}

/// Fault injection on hash quality (hooks H6/H7) for the duration of a case: every unique table
/// that hashes its elements itself maps the hash into `unique` classes, the lossy ITE cache maps
/// the hash of a triple into `ite` classes.  Reset on drop (also when a case unwinds).  The
/// library's probe-length counter is a u8 (a known limit, DESIGN 6.7), so the callers keep the
/// number of nodes per class far below 255.
pub struct WeakHash;

impl WeakHash {
    pub fn new(unique: Option<u64>, ite: Option<u64>) -> WeakHash {
        rsdd::verif::set_unique_table_hash_classes(unique);
        rsdd::verif::set_ite_hash_classes(ite);
        if unique.is_some() {
            WEAK_USED.with(|s| s.set(true));
        }
        let _ = rsdd::verif::take_unique_hash_clashes();
        WeakHash
    }
    /// probes that met an element with the same 64-bit hash and another value since `new`
    pub fn clashes(&self) -> u64 {
        rsdd::verif::take_unique_hash_clashes()
    }
}

impl Drop for WeakHash {
    fn drop(&mut self) {
        rsdd::verif::set_unique_table_hash_classes(None);
        rsdd::verif::set_ite_hash_classes(None);
    }
}
