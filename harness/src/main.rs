//! rsdd-mon: runtime monitors for rsdd (properties C01..C19).
//! One worker process = one (property, shard); emits JSON lines on stdout.

mod bddhist;
mod caps;
mod ctx;
mod exact;
mod gen;
mod mon;
mod rng;
mod sddhist;
mod semi;
mod tt;
mod walk;
mod witness;

use ctx::Ctx;
use std::collections::{BTreeMap, HashSet};

fn main() {
    let args: Vec<String> = std::env::args().collect();
    if args.len() < 2 {
        eprintln!("usage: rsdd-mon <C01..C19> [--seed S] [--shard I] [--nshards N] [--scale K] [--tier T] [--profile P] [--out DIR] [--only regime:case]");
        std::process::exit(64);
    }
    let prop = args[1].clone();
    let mut seed = 1u64;
    let mut shard = 0u64;
    let mut nshards = 1u64;
    let mut scale = 1u64;
    let mut tier = "quick".to_string();
    let mut profile = "mon".to_string();
    let mut outdir = ".".to_string();
    let mut only = None;
    let mut i = 2;
    while i + 1 < args.len() {
        let v = args[i + 1].clone();
        match args[i].as_str() {
            "--seed" => seed = v.parse().expect("seed"),
            "--shard" => shard = v.parse().expect("shard"),
            "--nshards" => nshards = v.parse().expect("nshards"),
            "--scale" => scale = v.parse().expect("scale"),
            "--tier" => tier = v,
            "--profile" => profile = v,
            "--out" => outdir = v,
            "--only" => {
                let (r, c) = v.rsplit_once(':').expect("--only regime:case");
                only = Some((r.to_string(), c.parse().expect("case id")));
            }
            x => {
                eprintln!("unknown option {}", x);
                std::process::exit(64);
            }
        }
        i += 2;
    }
    ctx::install_panic_hook();
    caps::init();
    let mut c = Ctx {
        prop: prop.clone(),
        seed,
        shard,
        nshards,
        scale,
        tier,
        profile,
        only,
        outdir,
        counters: BTreeMap::new(),
        sets: BTreeMap::new(),
        distinct: HashSet::new(),
        samples: Vec::new(),
        violations: 0,
        viol_by_sub: BTreeMap::new(),
        harness_errors: 0,
        cur_regime: String::new(),
        cur_case: 0,
        max_samples: 4,
        quiet: false,
    };
    if !mon::dispatch(&mut c) {
        eprintln!("unknown property {}", prop);
        std::process::exit(64);
    }
    c.finish();
}
