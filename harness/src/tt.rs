//! Truth-table oracle: a Boolean function over `n` variables (labels 0..n) is a
//! bitset of 2^n bits; bit `a` is the value on the assignment in which variable
//! `i` has the value of bit `i` of `a`.  Written independently of rsdd.

#[derive(Clone, PartialEq, Eq, Hash, Debug)]
pub struct Tt {
    pub n: usize,
    pub w: Vec<u64>,
}

const VARMASK: [u64; 6] = [
    0xAAAA_AAAA_AAAA_AAAA,
    0xCCCC_CCCC_CCCC_CCCC,
    0xF0F0_F0F0_F0F0_F0F0,
    0xFF00_FF00_FF00_FF00,
    0xFFFF_0000_FFFF_0000,
    0xFFFF_FFFF_0000_0000,
];

fn words(n: usize) -> usize {
    if n <= 6 {
        1
    } else {
        1 << (n - 6)
    }
}

fn lowmask(n: usize) -> u64 {
    if n >= 6 {
        !0
    } else {
        (1u64 << (1 << n)) - 1
    }
}

impl Tt {
    pub fn konst(n: usize, v: bool) -> Tt {
        assert!(n <= 20, "HARNESS: too many variables for a truth table");
        let fill = if v { lowmask(n) } else { 0 };
        Tt {
            n,
            w: vec![fill; words(n)],
        }
    }
    pub fn var(n: usize, v: usize) -> Tt {
        assert!(v < n, "HARNESS: var {} out of range {}", v, n);
        let mut t = Tt::konst(n, false);
        if v < 6 {
            for x in t.w.iter_mut() {
                *x = VARMASK[v] & lowmask(n);
            }
        } else {
            let stride = 1usize << (v - 6);
            for (i, x) in t.w.iter_mut().enumerate() {
                if (i / stride) & 1 == 1 {
                    *x = !0;
                }
            }
        }
        t
    }
    pub fn lit(n: usize, v: usize, pol: bool) -> Tt {
        let t = Tt::var(n, v);
        if pol {
            t
        } else {
            t.not()
        }
    }
    pub fn not(&self) -> Tt {
        let m = lowmask(self.n);
        Tt {
            n: self.n,
            w: self.w.iter().map(|x| !x & m).collect(),
        }
    }
    fn zip(&self, o: &Tt, f: impl Fn(u64, u64) -> u64) -> Tt {
        assert_eq!(self.n, o.n, "HARNESS: tt arity mismatch");
        Tt {
            n: self.n,
            w: self.w.iter().zip(o.w.iter()).map(|(a, b)| f(*a, *b)).collect(),
        }
    }
    pub fn and(&self, o: &Tt) -> Tt {
        self.zip(o, |a, b| a & b)
    }
    pub fn or(&self, o: &Tt) -> Tt {
        self.zip(o, |a, b| a | b)
    }
    pub fn xor(&self, o: &Tt) -> Tt {
        self.zip(o, |a, b| a ^ b)
    }
    pub fn iff(&self, o: &Tt) -> Tt {
        self.xor(o).not()
    }
    pub fn ite(&self, g: &Tt, h: &Tt) -> Tt {
        self.and(g).or(&self.not().and(h))
    }
    pub fn is_false(&self) -> bool {
        self.w.iter().all(|x| *x == 0)
    }
    pub fn is_true(&self) -> bool {
        let m = lowmask(self.n);
        self.w.iter().all(|x| *x == m)
    }
    pub fn get(&self, a: usize) -> bool {
        (self.w[a >> 6] >> (a & 63)) & 1 == 1
    }
    pub fn set(&mut self, a: usize, v: bool) {
        if v {
            self.w[a >> 6] |= 1 << (a & 63);
        } else {
            self.w[a >> 6] &= !(1 << (a & 63));
        }
    }
    pub fn count(&self) -> u64 {
        self.w.iter().map(|x| x.count_ones() as u64).sum()
    }
    /// f | v = val  (result does not depend on v)
    pub fn cofactor(&self, v: usize, val: bool) -> Tt {
        let mut r = Tt::konst(self.n, false);
        let size = 1usize << self.n;
        let bit = 1usize << v;
        for a in 0..size {
            let src = if val { a | bit } else { a & !bit };
            if self.get(src) {
                r.set(a, true);
            }
        }
        r
    }
    pub fn exists(&self, v: usize) -> Tt {
        self.cofactor(v, true).or(&self.cofactor(v, false))
    }
    pub fn depends_on(&self, v: usize) -> bool {
        self.cofactor(v, true) != self.cofactor(v, false)
    }
    pub fn support(&self) -> Vec<usize> {
        (0..self.n).filter(|v| self.depends_on(*v)).collect()
    }
    /// the documented `compose`:  exists v. (v <=> g) /\ f
    pub fn compose_doc(&self, v: usize, g: &Tt) -> Tt {
        Tt::var(self.n, v).iff(g).and(self).exists(v)
    }
    /// is this a constant or a single literal?
    pub fn is_trivial(&self) -> bool {
        if self.is_false() || self.is_true() {
            return true;
        }
        for v in 0..self.n {
            let x = Tt::var(self.n, v);
            if *self == x || *self == x.not() {
                return true;
            }
        }
        false
    }
    /// widen to `m >= n` variables (the new ones are don't-cares)
    pub fn widen(&self, m: usize) -> Tt {
        assert!(m >= self.n);
        let mut r = Tt::konst(m, false);
        let mask = (1usize << self.n) - 1;
        for a in 0..(1usize << m) {
            if self.get(a & mask) {
                r.set(a, true);
            }
        }
        r
    }
    pub fn hash64(&self) -> u64 {
        let mut h = crate::rng::mix(self.n as u64);
        for x in &self.w {
            h = crate::rng::mix(h ^ *x);
        }
        h
    }
    pub fn hex(&self) -> String {
        let mut s = String::new();
        for x in self.w.iter().rev() {
            if self.n >= 6 {
                s.push_str(&format!("{:016x}", x));
            } else {
                s.push_str(&format!("{:x}", x));
            }
        }
        format!("{}v:{}", self.n, s)
    }
    /// build from a predicate on assignments
    pub fn from_fn(n: usize, f: impl Fn(usize) -> bool) -> Tt {
        let mut r = Tt::konst(n, false);
        for a in 0..(1usize << n) {
            if f(a) {
                r.set(a, true);
            }
        }
        r
    }
    /// a uniformly random function over the first `k` variables, as an n-ary table
    pub fn random(n: usize, k: usize, rng: &mut crate::rng::Rng) -> Tt {
        let mut small = Tt::konst(k, false);
        for x in small.w.iter_mut() {
            *x = rng.next() & lowmask(k);
        }
        small.widen(n)
    }
}

#[cfg(test)]
mod tests {
    use super::*;
    #[test]
    fn basics() {
        for n in [1usize, 3, 6, 7, 9] {
            for v in 0..n {
                let x = Tt::var(n, v);
                for a in 0..(1usize << n) {
                    assert_eq!(x.get(a), (a >> v) & 1 == 1);
                }
                assert!(x.depends_on(v));
                assert!(x.cofactor(v, true).is_true());
                assert!(x.cofactor(v, false).is_false());
                assert!(x.exists(v).is_true());
            }
        }
        let n = 7;
        let f = Tt::var(n, 0).and(&Tt::var(n, 6)).or(&Tt::var(n, 3).not());
        assert_eq!(f.support(), vec![0, 3, 6]);
        assert_eq!(f.not().not(), f);
        // substitution agrees with documented compose when g does not depend on v
        let g = Tt::var(n, 1).xor(&Tt::var(n, 2));
        let sub = Tt::from_fn(n, |a| {
            let gv = g.get(a);
            let a2 = if gv { a | 1 } else { a & !1 };
            f.get(a2)
        });
        assert_eq!(f.compose_doc(0, &g), sub);
    }
}
