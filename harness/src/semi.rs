//! Oracle-side mirrors of the shipped semirings (exact arithmetic), with exact
//! conversion to and comparison with the rsdd value types.

use crate::exact::*;
use crate::rng::Rng;
use crate::tt::Tt;
use rsdd::repr::{VarLabel, WmcParams};
use rsdd::util::semirings::{
    BooleanSemiring, Complex, ExpectedUtility, FiniteField, Polynomial, RationalSemiring, RealSemiring, Semiring,
    MAX_COEFFS,
};
use std::collections::HashMap;
use std::fmt::Debug;

pub trait OSr: Clone + PartialEq + Debug {
    type R: Semiring + std::ops::Add<Output = Self::R> + std::ops::Mul<Output = Self::R> + 'static;
    const NAME: &'static str;
    fn zero() -> Self;
    fn one() -> Self;
    fn add(&self, o: &Self) -> Self;
    fn mul(&self, o: &Self) -> Self;
    fn to_r(&self) -> Self::R;
    fn matches(&self, r: &Self::R) -> bool;
    fn show(&self) -> String;
    fn show_r(r: &Self::R) -> String {
        format!("{:?}", r)
    }
    /// a (low, high) weight pair; normalised = low + high == one
    fn random_pair(rng: &mut Rng, normalised: bool) -> (Self, Self);
    /// for float-backed types: (sub-multiplicative abs-sum norm, fractional bits); None = always exact
    fn magnitude(&self) -> Option<(Dy, u32)> {
        None
    }
}

/// true when every intermediate value of any sum-of-products over these weights is
/// exactly representable in f64 (so float results are order-independent and exact)
pub fn float_exact<S: OSr>(w: &[(S, S)]) -> bool {
    let mut bound = Dy::int(1);
    let mut frac: u32 = 0;
    for (l, h) in w {
        match (l.magnitude(), h.magnitude()) {
            (Some((a, fa)), Some((b, fb))) => {
                let s = a.add(b).max(Dy::int(1));
                // keep the bound itself small
                if s.num.unsigned_abs() > (1u128 << 40) {
                    return false;
                }
                bound = bound.mul(s);
                if bound.num.unsigned_abs() > (1u128 << 100) {
                    return false;
                }
                frac += fa.max(fb);
            }
            _ => return true,
        }
    }
    // bound * 2^frac < 2^52
    let b = bound.to_f64();
    b * (2f64).powi(frac as i32) < (1u64 << 52) as f64
}

pub fn params<S: OSr>(w: &[(S, S)]) -> WmcParams<S::R> {
    // both public ways of filling a weight table are used: the constructor, and
    // set_weight() in a scrambled order with every other label first set to a wrong
    // value and then overwritten (the table must hold the LAST weight set per label)
    let mut scramble = crate::rng::hash_str(&format!("{:?}", w.iter().map(|x| x.0.show()).collect::<Vec<_>>()));
    if scramble & 1 == 0 {
        let mut m = HashMap::new();
        for (i, (l, h)) in w.iter().enumerate() {
            m.insert(VarLabel::new(i as u64), (l.to_r(), h.to_r()));
        }
        return WmcParams::new(m);
    }
    let mut order: Vec<usize> = (0..w.len()).collect();
    for i in (1..order.len()).rev() {
        scramble = crate::rng::mix(scramble);
        order.swap(i, (scramble % (i as u64 + 1)) as usize);
    }
    let mut p: WmcParams<S::R> = WmcParams::default();
    for (k, i) in order.iter().enumerate() {
        if k % 2 == 0 {
            p.set_weight(VarLabel::new(*i as u64), w[*i].1.to_r(), w[*i].0.to_r());
        }
    }
    for i in order.iter().rev() {
        p.set_weight(VarLabel::new(*i as u64), w[*i].0.to_r(), w[*i].1.to_r());
    }
    p
}

/// sum over all models (over all n variables) of the product of literal weights
pub fn full_sum<S: OSr>(t: &Tt, w: &[(S, S)]) -> S {
    let n = t.n;
    assert!(w.len() >= n, "HARNESS: weights missing");
    let mut total = S::zero();
    for a in 0..(1usize << n) {
        if t.get(a) {
            let mut p = S::one();
            for (v, wv) in w.iter().enumerate().take(n) {
                p = p.mul(if (a >> v) & 1 == 1 { &wv.1 } else { &wv.0 });
            }
            total = total.add(&p);
        }
    }
    total
}

/// the unsmoothed count U (S2): sum only over the variables each sub-function
/// depends on, first variable in `order` first
pub fn unsmoothed<S: OSr>(t: &Tt, w: &[(S, S)], order: &[usize]) -> S {
    if t.is_false() {
        return S::zero();
    }
    if t.is_true() {
        return S::one();
    }
    for v in order {
        if t.depends_on(*v) {
            let lo = unsmoothed(&t.cofactor(*v, false), w, order);
            let hi = unsmoothed(&t.cofactor(*v, true), w, order);
            return w[*v].0.mul(&lo).add(&w[*v].1.mul(&hi));
        }
    }
    panic!("HARNESS: non-constant function depends on no variable of the order");
}

// ------------------------------------------------------------------ real

#[derive(Clone, PartialEq, Debug)]
pub struct OReal(pub Dy);

impl OSr for OReal {
    type R = RealSemiring;
    const NAME: &'static str = "real";
    fn zero() -> Self {
        OReal(Dy::int(0))
    }
    fn one() -> Self {
        OReal(Dy::int(1))
    }
    fn add(&self, o: &Self) -> Self {
        OReal(self.0.add(o.0))
    }
    fn mul(&self, o: &Self) -> Self {
        OReal(self.0.mul(o.0))
    }
    fn to_r(&self) -> RealSemiring {
        assert!(self.0.fits_f64(), "HARNESS: real weight not representable");
        RealSemiring(self.0.to_f64())
    }
    fn matches(&self, r: &RealSemiring) -> bool {
        f64_is(r.0, self.0)
    }
    fn show(&self) -> String {
        self.0.show()
    }
    fn random_pair(rng: &mut Rng, normalised: bool) -> (Self, Self) {
        if normalised {
            let k = rng.below(9) as i128;
            (OReal(Dy::new(8 - k, 3)), OReal(Dy::new(k, 3)))
        } else {
            (OReal(Dy::new(rng.below(13) as i128, 2)), OReal(Dy::new(rng.below(13) as i128, 2)))
        }
    }
    fn magnitude(&self) -> Option<(Dy, u32)> {
        Some((Dy::new(self.0.num.abs(), self.0.exp), self.0.exp))
    }
}

// ------------------------------------------------------------------ finite field

#[derive(Clone, PartialEq, Debug)]
pub struct OFf<const P: u128>(pub u128);

/// Mersenne primes a user may instantiate `FiniteField<P>` with (the type is generic over "the
/// size of the field"; the library's arithmetic is exact for every P < 2^127)
pub const M107: u128 = (1u128 << 107) - 1;
pub const M127: u128 = (1u128 << 127) - 1;

impl<const P: u128> OSr for OFf<P> {
    type R = FiniteField<P>;
    const NAME: &'static str = "finite_field";
    fn zero() -> Self {
        OFf(0)
    }
    fn one() -> Self {
        OFf(1 % P)
    }
    fn add(&self, o: &Self) -> Self {
        OFf(addmod(self.0, o.0, P))
    }
    fn mul(&self, o: &Self) -> Self {
        OFf(mulmod(self.0, o.0, P))
    }
    fn to_r(&self) -> FiniteField<P> {
        FiniteField::new(self.0)
    }
    fn matches(&self, r: &FiniteField<P>) -> bool {
        r.value() == self.0
    }
    fn show(&self) -> String {
        format!("{} mod {}", self.0, P)
    }
    fn random_pair(rng: &mut Rng, normalised: bool) -> (Self, Self) {
        let mut pick = |rng: &mut Rng| -> u128 {
            match rng.below(6) {
                0 => rng.below(4) as u128,
                1 => P - 1 - (rng.below(3) as u128),
                2 => P / 2 + (rng.below(3) as u128),
                _ => (((rng.next() as u128) << 64) | rng.next() as u128) % P,
            }
        };
        let h = pick(rng);
        if normalised {
            (OFf(submod(1, h, P)), OFf(h))
        } else {
            (OFf(pick(rng)), OFf(h))
        }
    }
}

// ------------------------------------------------------------------ boolean

#[derive(Clone, PartialEq, Debug)]
pub struct OBool(pub bool);

impl OSr for OBool {
    type R = BooleanSemiring;
    const NAME: &'static str = "boolean";
    fn zero() -> Self {
        OBool(false)
    }
    fn one() -> Self {
        OBool(true)
    }
    fn add(&self, o: &Self) -> Self {
        OBool(self.0 || o.0)
    }
    fn mul(&self, o: &Self) -> Self {
        OBool(self.0 && o.0)
    }
    fn to_r(&self) -> BooleanSemiring {
        BooleanSemiring(self.0)
    }
    fn matches(&self, r: &BooleanSemiring) -> bool {
        r.0 == self.0
    }
    fn show(&self) -> String {
        format!("{}", self.0)
    }
    fn random_pair(rng: &mut Rng, normalised: bool) -> (Self, Self) {
        let (l, h) = (rng.bool(), rng.bool());
        if normalised && !l && !h {
            (OBool(true), OBool(rng.bool()))
        } else {
            (OBool(l), OBool(h))
        }
    }
}

// ------------------------------------------------------------------ expected utility

#[derive(Clone, PartialEq, Debug)]
pub struct OEu(pub Dy, pub Dy);

impl OSr for OEu {
    type R = ExpectedUtility;
    const NAME: &'static str = "expected_utility";
    fn zero() -> Self {
        OEu(Dy::int(0), Dy::int(0))
    }
    fn one() -> Self {
        OEu(Dy::int(1), Dy::int(0))
    }
    fn add(&self, o: &Self) -> Self {
        OEu(self.0.add(o.0), self.1.add(o.1))
    }
    fn mul(&self, o: &Self) -> Self {
        OEu(self.0.mul(o.0), self.0.mul(o.1).add(self.1.mul(o.0)))
    }
    fn to_r(&self) -> ExpectedUtility {
        assert!(self.0.fits_f64() && self.1.fits_f64(), "HARNESS: EU weight not representable");
        ExpectedUtility(self.0.to_f64(), self.1.to_f64())
    }
    fn matches(&self, r: &ExpectedUtility) -> bool {
        f64_is(r.0, self.0) && f64_is(r.1, self.1)
    }
    fn show(&self) -> String {
        format!("(p={}, eu={})", self.0.show(), self.1.show())
    }
    fn random_pair(rng: &mut Rng, normalised: bool) -> (Self, Self) {
        let u = |rng: &mut Rng| Dy::new(rng.below(17) as i128 - 8, 1);
        if normalised {
            let k = rng.below(9) as i128;
            let x = u(rng);
            (OEu(Dy::new(8 - k, 3), x.neg()), OEu(Dy::new(k, 3), x))
        } else {
            (
                OEu(Dy::new(rng.below(9) as i128, 2), u(rng)),
                OEu(Dy::new(rng.below(9) as i128, 2), u(rng)),
            )
        }
    }
    fn magnitude(&self) -> Option<(Dy, u32)> {
        Some((Dy::new(self.0.num.abs(), self.0.exp).add(Dy::new(self.1.num.abs(), self.1.exp)), self.0.exp.max(self.1.exp)))
    }
}

// ------------------------------------------------------------------ complex

#[derive(Clone, PartialEq, Debug)]
pub struct OCx(pub Dy, pub Dy);

impl OSr for OCx {
    type R = Complex;
    const NAME: &'static str = "complex";
    fn zero() -> Self {
        OCx(Dy::int(0), Dy::int(0))
    }
    fn one() -> Self {
        OCx(Dy::int(1), Dy::int(0))
    }
    fn add(&self, o: &Self) -> Self {
        OCx(self.0.add(o.0), self.1.add(o.1))
    }
    fn mul(&self, o: &Self) -> Self {
        OCx(self.0.mul(o.0).sub(self.1.mul(o.1)), self.0.mul(o.1).add(self.1.mul(o.0)))
    }
    fn to_r(&self) -> Complex {
        assert!(self.0.fits_f64() && self.1.fits_f64(), "HARNESS: complex weight not representable");
        Complex {
            re: self.0.to_f64(),
            im: self.1.to_f64(),
        }
    }
    fn matches(&self, r: &Complex) -> bool {
        f64_is(r.re, self.0) && f64_is(r.im, self.1)
    }
    fn show(&self) -> String {
        format!("{}+{}i", self.0.show(), self.1.show())
    }
    fn random_pair(rng: &mut Rng, normalised: bool) -> (Self, Self) {
        let c = |rng: &mut Rng| Dy::new(rng.below(9) as i128 - 4, 2);
        let h = OCx(c(rng), c(rng));
        if normalised {
            (OCx(Dy::int(1).sub(h.0), h.1.neg()), h)
        } else {
            (OCx(c(rng), c(rng)), h)
        }
    }
    fn magnitude(&self) -> Option<(Dy, u32)> {
        Some((Dy::new(self.0.num.abs(), self.0.exp).add(Dy::new(self.1.num.abs(), self.1.exp)), self.0.exp.max(self.1.exp)))
    }
}

// ------------------------------------------------------------------ rational (naturals, S11)

#[derive(Clone, PartialEq, Debug)]
pub struct ORat(pub u128);

impl OSr for ORat {
    type R = RationalSemiring;
    const NAME: &'static str = "rational";
    fn zero() -> Self {
        ORat(0)
    }
    fn one() -> Self {
        ORat(1)
    }
    fn add(&self, o: &Self) -> Self {
        ORat(self.0.checked_add(o.0).expect("HARNESS: natural overflow"))
    }
    fn mul(&self, o: &Self) -> Self {
        ORat(self.0.checked_mul(o.0).expect("HARNESS: natural overflow"))
    }
    /// only values reachable from one/zero by + and * exist for a user
    fn to_r(&self) -> RationalSemiring {
        let one = RationalSemiring::one();
        let two = one + one;
        let mut acc = RationalSemiring::zero();
        let bits = 128 - self.0.leading_zeros();
        for i in (0..bits).rev() {
            acc = acc * two;
            if (self.0 >> i) & 1 == 1 {
                acc = acc + one;
            }
        }
        acc
    }
    fn matches(&self, r: &RationalSemiring) -> bool {
        self.to_r() == *r
    }
    fn show(&self) -> String {
        format!("{}", self.0)
    }
    fn random_pair(rng: &mut Rng, normalised: bool) -> (Self, Self) {
        if normalised {
            if rng.bool() {
                (ORat(1), ORat(0))
            } else {
                (ORat(0), ORat(1))
            }
        } else {
            (ORat(rng.below(6) as u128), ORat(rng.below(6) as u128))
        }
    }
}

// ------------------------------------------------------------------ polynomial (mod x^32)

#[derive(Clone, PartialEq, Debug)]
pub struct OPoly(pub Vec<Dy>); // always MAX_COEFFS long

impl OPoly {
    pub fn from(c: &[i128]) -> OPoly {
        let mut v = vec![Dy::int(0); MAX_COEFFS];
        for (i, x) in c.iter().enumerate().take(MAX_COEFFS) {
            v[i] = Dy::int(*x);
        }
        OPoly(v)
    }
    pub fn used(&self) -> usize {
        (0..MAX_COEFFS).rev().find(|i| !self.0[*i].is_zero()).map(|i| i + 1).unwrap_or(0)
    }
}

impl OSr for OPoly {
    type R = Polynomial<RealSemiring>;
    const NAME: &'static str = "polynomial";
    fn zero() -> Self {
        OPoly(vec![Dy::int(0); MAX_COEFFS])
    }
    fn one() -> Self {
        OPoly::from(&[1])
    }
    fn add(&self, o: &Self) -> Self {
        OPoly((0..MAX_COEFFS).map(|i| self.0[i].add(o.0[i])).collect())
    }
    fn mul(&self, o: &Self) -> Self {
        let mut v = vec![Dy::int(0); MAX_COEFFS];
        for i in 0..MAX_COEFFS {
            if self.0[i].is_zero() {
                continue;
            }
            for j in 0..(MAX_COEFFS - i) {
                v[i + j] = v[i + j].add(self.0[i].mul(o.0[j]));
            }
        }
        OPoly(v)
    }
    fn to_r(&self) -> Polynomial<RealSemiring> {
        let mut c = [RealSemiring(0.0); MAX_COEFFS];
        for i in 0..MAX_COEFFS {
            assert!(self.0[i].fits_f64(), "HARNESS: coefficient not representable");
            c[i] = RealSemiring(self.0[i].to_f64());
        }
        Polynomial {
            coefficients: c,
            len: self.used(),
        }
    }
    /// all 32 coefficients equal, and `len` covers every non-zero coefficient
    fn matches(&self, r: &Polynomial<RealSemiring>) -> bool {
        (0..MAX_COEFFS).all(|i| f64_is(r.coefficients[i].0, self.0[i])) && r.len >= self.used() && r.len <= MAX_COEFFS
    }
    fn show(&self) -> String {
        format!("{:?}", self.0.iter().take(self.used()).map(|d| d.show()).collect::<Vec<_>>())
    }
    fn show_r(r: &Polynomial<RealSemiring>) -> String {
        format!("len={} {:?}", r.len, r.coefficients.iter().map(|c| c.0).collect::<Vec<_>>())
    }
    fn random_pair(rng: &mut Rng, normalised: bool) -> (Self, Self) {
        // mostly degree-1 weights; sometimes long ones so that products truncate
        let len = match rng.below(10) {
            0 => rng.range(3, 8),
            1 => *rng.pick(&[16usize, 31, 32]),
            _ => 2,
        };
        let mut h: Vec<i128> = (0..len).map(|_| rng.below(5) as i128 - 1).collect();
        if len >= 16 {
            // make the top coefficient visible
            h[len - 1] = 1 + rng.below(3) as i128;
        }
        let hp = OPoly::from(&h);
        if normalised {
            let mut l: Vec<i128> = h.iter().map(|x| -x).collect();
            l[0] += 1;
            (OPoly::from(&l), hp)
        } else {
            let l: Vec<i128> = (0..rng.range(1, 3)).map(|_| rng.below(4) as i128).collect();
            (OPoly::from(&l), hp)
        }
    }
    fn magnitude(&self) -> Option<(Dy, u32)> {
        let mut s = Dy::int(0);
        let mut f = 0;
        for c in &self.0 {
            s = s.add(Dy::new(c.num.abs(), c.exp));
            f = f.max(c.exp);
        }
        Some((s, f))
    }
}

#[cfg(test)]
mod tests {
    use super::*;

    #[test]
    fn sums_by_hand() {
        // f = x0 | x1 over 2 variables, weights (l,h): x0 = (1/4, 3/4), x1 = (1/2, 1/2)
        let t = Tt::var(2, 0).or(&Tt::var(2, 1));
        let w = vec![
            (OReal(Dy::new(1, 2)), OReal(Dy::new(3, 2))),
            (OReal(Dy::new(1, 1)), OReal(Dy::new(1, 1))),
        ];
        // models: 10, 01, 11 -> 3/4*1/2 + 1/4*1/2 + 3/4*1/2 = 7/8
        assert_eq!(full_sum(&t, &w).0, Dy::new(7, 3));
        // normalised weights: unsmoothed == full sum, under either order
        assert_eq!(unsmoothed(&t, &w, &[0, 1]).0, Dy::new(7, 3));
        assert_eq!(unsmoothed(&t, &w, &[1, 0]).0, Dy::new(7, 3));
        // non-normalised: f = x1 only; U ignores x0, the full sum does not
        let g = Tt::var(2, 1);
        let w2 = vec![(OReal(Dy::int(2)), OReal(Dy::int(3))), (OReal(Dy::int(5)), OReal(Dy::int(7)))];
        assert_eq!(unsmoothed(&g, &w2, &[0, 1]).0, Dy::int(7));
        assert_eq!(full_sum(&g, &w2).0, Dy::int(35));
    }

    #[test]
    fn mirrors_agree_with_rsdd_on_simple_values() {
        let a = OEu(Dy::new(1, 1), Dy::int(3));
        let b = OEu(Dy::new(1, 2), Dy::int(-2));
        assert!(a.mul(&b).matches(&(a.to_r() * b.to_r())));
        assert!(a.add(&b).matches(&(a.to_r() + b.to_r())));
        let p = OPoly::from(&[1, 2]);
        let q = OPoly::from(&[0, 1, 1]);
        assert!(p.mul(&q).matches(&(p.to_r() * q.to_r())));
        assert_eq!(p.mul(&q).used(), 4);
        let r = ORat(6);
        assert!(r.matches(&r.to_r()));
        assert!(!ORat(5).matches(&r.to_r()));
        let c = OCx(Dy::new(1, 1), Dy::int(-1));
        assert!(c.mul(&c).matches(&(c.to_r() * c.to_r())));
        assert!(float_exact(&[(a.clone(), b.clone())]));
    }
}
