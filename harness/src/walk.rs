//! Independent structural walkers: evaluate a diagram by its node structure only
//! (never through rsdd's own fold / evaluate, which are objects of C07/C10).

use crate::tt::Tt;
use rsdd::repr::{BddNode, BddPtr, SddPtr};
use std::collections::HashMap;

/// memo: address of node -> function of the *regular* node
pub struct BddWalker {
    pub n: usize,
    memo: HashMap<usize, Tt>,
    /// wide regimes only: a node tested a label the label map does not know
    pub foreign: bool,
}

/// truth-table variable of an rsdd label: the label itself, or (wide regimes) its dense
/// variable under the current label map; None for a label the map does not know
fn tt_var(n: usize, l: rsdd::repr::VarLabel) -> Option<usize> {
    let v = crate::gen::unlab(l);
    if v >= n && crate::gen::label_map().is_some() {
        None
    } else {
        Some(v)
    }
}

impl BddWalker {
    pub fn new(n: usize) -> BddWalker {
        BddWalker {
            n,
            memo: HashMap::new(),
            foreign: false,
        }
    }
    pub fn set_n(&mut self, n: usize) {
        if n != self.n {
            self.n = n;
            self.memo.clear();
        }
    }
    fn node(&mut self, node: &BddNode) -> Tt {
        let key = node as *const BddNode as usize;
        if let Some(t) = self.memo.get(&key) {
            return t.clone();
        }
        let lo = self.tt(node.low);
        let hi = self.tt(node.high);
        let v = match tt_var(self.n, node.var) {
            Some(v) => Tt::var(self.n, v),
            None => {
                self.foreign = true;
                Tt::konst(self.n, false)
            }
        };
        let r = v.ite(&hi, &lo);
        self.memo.insert(key, r.clone());
        r
    }
    pub fn tt(&mut self, p: BddPtr) -> Tt {
        match p {
            BddPtr::PtrTrue => Tt::konst(self.n, true),
            BddPtr::PtrFalse => Tt::konst(self.n, false),
            BddPtr::Reg(nd) => self.node(nd),
            BddPtr::Compl(nd) => self.node(nd).not(),
        }
    }
}

/// evaluate one assignment by following one path (second, even simpler walker)
pub fn bdd_eval_path(p: BddPtr, a: usize) -> bool {
    let mut cur = p;
    let mut neg = false;
    loop {
        match cur {
            BddPtr::PtrTrue => return !neg,
            BddPtr::PtrFalse => return neg,
            BddPtr::Reg(nd) => {
                cur = if (a >> nd.var.value_usize()) & 1 == 1 {
                    nd.high
                } else {
                    nd.low
                };
            }
            BddPtr::Compl(nd) => {
                neg = !neg;
                cur = if (a >> nd.var.value_usize()) & 1 == 1 {
                    nd.high
                } else {
                    nd.low
                };
            }
        }
    }
}

/// all distinct regular nodes reachable from p
pub fn bdd_nodes<'a>(p: BddPtr<'a>) -> Vec<&'a BddNode<'a>> {
    let mut seen: HashMap<usize, ()> = HashMap::new();
    let mut out = Vec::new();
    let mut stack = vec![p];
    while let Some(q) = stack.pop() {
        match q {
            BddPtr::Reg(nd) | BddPtr::Compl(nd) => {
                let k = nd as *const BddNode as usize;
                if seen.insert(k, ()).is_none() {
                    out.push(nd);
                    stack.push(nd.low);
                    stack.push(nd.high);
                }
            }
            _ => {}
        }
    }
    out
}

/// canonical serialisation of the reachable graph (isomorphism class): nodes are
/// numbered in DFS pre-order (low first), so two diagrams have the same string iff
/// they are structurally identical including complement marks.
pub fn bdd_canon_string(p: BddPtr) -> String {
    fn rec(p: BddPtr, ids: &mut HashMap<usize, usize>, out: &mut String) {
        match p {
            BddPtr::PtrTrue => out.push('T'),
            BddPtr::PtrFalse => out.push('F'),
            BddPtr::Reg(nd) | BddPtr::Compl(nd) => {
                if matches!(p, BddPtr::Compl(_)) {
                    out.push('!');
                }
                let k = nd as *const BddNode as usize;
                if let Some(i) = ids.get(&k) {
                    out.push_str(&format!("#{}", i));
                    return;
                }
                let i = ids.len();
                ids.insert(k, i);
                out.push_str(&format!("({}:{} ", i, nd.var.value()));
                rec(nd.low, ids, out);
                out.push(' ');
                rec(nd.high, ids, out);
                out.push(')');
            }
        }
    }
    let mut s = String::new();
    rec(p, &mut HashMap::new(), &mut s);
    s
}

// ---------------------------------------------------------------- SDD

pub struct SddWalker {
    pub n: usize,
    memo: HashMap<(u8, usize), Tt>,
    pub foreign: bool,
}

fn sdd_key(p: SddPtr) -> Option<(u8, usize)> {
    match p {
        SddPtr::BDD(b) | SddPtr::ComplBDD(b) => Some((0, b as *const _ as usize)),
        SddPtr::Reg(o) | SddPtr::Compl(o) => Some((1, o as *const _ as usize)),
        _ => None,
    }
}

impl SddWalker {
    pub fn new(n: usize) -> SddWalker {
        SddWalker {
            n,
            memo: HashMap::new(),
            foreign: false,
        }
    }
    /// function of the regular version of a node pointer
    fn reg(&mut self, p: SddPtr) -> Tt {
        let key = sdd_key(p).unwrap();
        if let Some(t) = self.memo.get(&key) {
            return t.clone();
        }
        let r = match p {
            SddPtr::BDD(b) | SddPtr::ComplBDD(b) => {
                let lo = self.tt(b.low());
                let hi = self.tt(b.high());
                match tt_var(self.n, b.label()) {
                    Some(v) => Tt::var(self.n, v).ite(&hi, &lo),
                    None => {
                        self.foreign = true;
                        lo
                    }
                }
            }
            SddPtr::Reg(o) | SddPtr::Compl(o) => {
                let mut acc = Tt::konst(self.n, false);
                for a in o.iter() {
                    let pt = self.tt(a.prime());
                    let st = self.tt(a.sub());
                    acc = acc.or(&pt.and(&st));
                }
                acc
            }
            _ => unreachable!(),
        };
        self.memo.insert(key, r.clone());
        r
    }
    pub fn tt(&mut self, p: SddPtr) -> Tt {
        match p {
            SddPtr::PtrTrue => Tt::konst(self.n, true),
            SddPtr::PtrFalse => Tt::konst(self.n, false),
            SddPtr::Var(l, pol) => match tt_var(self.n, l) {
                Some(v) => Tt::lit(self.n, v, pol),
                None => {
                    self.foreign = true;
                    Tt::konst(self.n, false)
                }
            },
            SddPtr::BDD(_) | SddPtr::Reg(_) => self.reg(p),
            SddPtr::ComplBDD(_) | SddPtr::Compl(_) => self.reg(p).not(),
        }
    }
}

/// every distinct decision node (as a regular pointer) reachable from p,
/// including nodes inside primes and subs
pub fn sdd_nodes<'a>(p: SddPtr<'a>) -> Vec<SddPtr<'a>> {
    let mut seen: HashMap<(u8, usize), ()> = HashMap::new();
    let mut out = Vec::new();
    let mut stack = vec![p];
    while let Some(q) = stack.pop() {
        if let Some(k) = sdd_key(q) {
            if seen.insert(k, ()).is_some() {
                continue;
            }
            match q {
                SddPtr::BDD(b) | SddPtr::ComplBDD(b) => {
                    out.push(SddPtr::BDD(b));
                    stack.push(b.low());
                    stack.push(b.high());
                }
                SddPtr::Reg(o) | SddPtr::Compl(o) => {
                    out.push(SddPtr::Reg(o));
                    for a in o.iter() {
                        stack.push(a.prime());
                        stack.push(a.sub());
                    }
                }
                _ => {}
            }
        }
    }
    out
}

/// isomorphism-class string of an SDD (element order as stored)
pub fn sdd_canon_string(p: SddPtr) -> String {
    fn rec(p: SddPtr, ids: &mut HashMap<(u8, usize), usize>, out: &mut String) {
        match p {
            SddPtr::PtrTrue => out.push('T'),
            SddPtr::PtrFalse => out.push('F'),
            SddPtr::Var(l, pol) => out.push_str(&format!("{}{}", if pol { "" } else { "-" }, l.value())),
            _ => {
                if matches!(p, SddPtr::ComplBDD(_) | SddPtr::Compl(_)) {
                    out.push('!');
                }
                let k = sdd_key(p).unwrap();
                if let Some(i) = ids.get(&k) {
                    out.push_str(&format!("#{}", i));
                    return;
                }
                let i = ids.len();
                ids.insert(k, i);
                match p {
                    SddPtr::BDD(b) | SddPtr::ComplBDD(b) => {
                        out.push_str(&format!("[{}@{} b{} ", i, b.index().value(), b.label().value()));
                        rec(b.low(), ids, out);
                        out.push(' ');
                        rec(b.high(), ids, out);
                        out.push(']');
                    }
                    SddPtr::Reg(o) | SddPtr::Compl(o) => {
                        out.push_str(&format!("{{{}@{}", i, o.index().value()));
                        for a in o.iter() {
                            out.push_str(" <");
                            rec(a.prime(), ids, out);
                            out.push(',');
                            rec(a.sub(), ids, out);
                            out.push('>');
                        }
                        out.push('}');
                    }
                    _ => unreachable!(),
                }
            }
        }
    }
    let mut s = String::new();
    rec(p, &mut HashMap::new(), &mut s);
    s
}

#[cfg(test)]
mod tests {
    use super::*;
    use rsdd::repr::VarLabel;

    #[test]
    fn walks_hand_built_nodes() {
        // x1 ? T : F  and  x0 ? !(x1) : x1  (an xor with a complemented high edge)
        let x1 = BddNode::new(VarLabel::new(1), BddPtr::PtrFalse, BddPtr::PtrTrue);
        let top = BddNode::new(VarLabel::new(0), BddPtr::Reg(&x1), BddPtr::Compl(&x1));
        let mut w = BddWalker::new(2);
        let t = w.tt(BddPtr::Reg(&top));
        assert_eq!(t, Tt::var(2, 0).xor(&Tt::var(2, 1)));
        assert_eq!(w.tt(BddPtr::Compl(&top)), t.not());
        for a in 0..4usize {
            assert_eq!(bdd_eval_path(BddPtr::Reg(&top), a), t.get(a));
            assert_eq!(bdd_eval_path(BddPtr::Compl(&top), a), !t.get(a));
        }
        assert_eq!(bdd_nodes(BddPtr::Reg(&top)).len(), 2);
        assert_ne!(bdd_canon_string(BddPtr::Reg(&top)), bdd_canon_string(BddPtr::Compl(&top)));
    }
}
