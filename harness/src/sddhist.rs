//! SDD operation histories on `CompressionSddBuilder`, with the C03 (function),
//! C04 (well-formedness / canonicity) and C16 (cache transparency) oracles.

use crate::bddhist::{Arg, Op};
use crate::ctx::Ctx;
use crate::gen::Vt;
use crate::rng::Rng;
use crate::tt::Tt;
use crate::walk::{sdd_canon_string, sdd_nodes, SddWalker};
use rsdd::builder::sdd::{CompressionSddBuilder, SddBuilder};
use rsdd::builder::BottomUpBuilder;
use rsdd::repr::{DDNNFPtr, SddPtr, VTree, VarLabel};
use rsdd::util::btree::BTree;
use serde_json::{json, Value};
use std::collections::{HashMap, HashSet};

#[derive(Clone, Debug)]
pub struct SddCfg {
    pub n: usize,
    pub vtree: Vt,
    pub family: String,
    pub compress: bool,
    pub uniq_cap: Option<usize>,
    pub nops: usize,
}

impl SddCfg {
    pub fn to_json(&self) -> Value {
        json!({"n": self.n, "vtree": self.vtree.to_json(), "family": self.family,
            "compress": self.compress, "uniq_cap": self.uniq_cap, "nops": self.nops})
    }
}

#[derive(Clone, Debug, Default)]
pub struct SddChecks {
    pub function: bool,
    pub wellformed: bool,
    pub record_canon: bool,
    /// every k-th op: redo the op in a fresh builder on operands rebuilt from their
    /// truth tables and compare the isomorphism class (0 = never)
    pub cold_replay_every: usize,
}

pub fn gen_sdd_history(n: usize, nops: usize, rng: &mut Rng) -> Vec<Op> {
    let mut ops = Vec::with_capacity(nops);
    let mut plen = 2 + n;
    let pick = |rng: &mut Rng, plen: usize| -> Arg {
        let r = rng.below(100);
        let idx = if r < 50 && plen > 6 {
            plen - 1 - rng.below(6)
        } else if r < 60 {
            rng.below(usize::min(plen, 5))
        } else {
            rng.below(plen)
        };
        (idx, rng.chance(1, 3))
    };
    for _ in 0..nops {
        let a = pick(rng, plen);
        let mut b = pick(rng, plen);
        let mut c = pick(rng, plen);
        match rng.below(14) {
            0 => b = a,
            1 => b = (a.0, !a.1),
            2 => c = a,
            3 => c = (a.0, !a.1),
            4 => c = b,
            5 => c = (b.0, !b.1),
            _ => {}
        }
        let v = rng.below(n);
        let r = rng.below(100);
        let op = if r < 4 {
            Op::Var(v, rng.bool())
        } else if r < 7 {
            Op::Not(a)
        } else if r < 27 {
            Op::And(a, b)
        } else if r < 42 {
            Op::Or(a, b)
        } else if r < 50 {
            Op::Xor(a, b)
        } else if r < 58 {
            Op::Iff(a, b)
        } else if r < 72 {
            Op::Ite(a, b, c)
        } else if r < 84 {
            Op::Cond(a, v, rng.bool())
        } else if r < 92 {
            Op::Exists(a, v)
        } else {
            Op::Compose(a, v, b)
        };
        plen += 1;
        ops.push(op);
    }
    ops
}

pub fn vtree_vars(t: &VTree) -> Vec<usize> {
    match t {
        BTree::Leaf(v) => vec![v.value_usize()],
        BTree::Node(_, l, r) => {
            let mut a = vtree_vars(l);
            a.extend(vtree_vars(r));
            a
        }
    }
}

/// build the SDD of a truth table by Shannon expansion in label order (any route
/// must give the canonical node)
pub fn sdd_from_tt<'a, B: SddBuilder<'a>>(b: &'a B, t: &Tt, v: usize) -> SddPtr<'a> {
    if t.is_true() {
        return SddPtr::PtrTrue;
    }
    if t.is_false() {
        return SddPtr::PtrFalse;
    }
    assert!(v < t.n, "HARNESS: non-constant function without variables");
    if !t.depends_on(v) {
        return sdd_from_tt(b, t, v + 1);
    }
    let hi = sdd_from_tt(b, &t.cofactor(v, true), v + 1);
    let lo = sdd_from_tt(b, &t.cofactor(v, false), v + 1);
    let x = SddPtr::Var(crate::gen::lab(v), true);
    let a = b.and(x, hi);
    let c = b.and(x.neg(), lo);
    b.or(a, c)
}

fn apply_case<'a, B: SddBuilder<'a>>(b: &'a B, p: SddPtr<'a>, q: SddPtr<'a>) -> &'static str {
    if p.is_const() || q.is_const() {
        return "const";
    }
    let av = b.vtree_index(p);
    let bv = b.vtree_index(q);
    if av == bv {
        return "same_vtree_node";
    }
    let l = b.vtree_manager().lca(av, bv);
    if l == av || l == bv {
        let (anc, desc) = if l == av { (av, bv) } else { (bv, av) };
        if desc.value() < anc.value() {
            "descendant_in_prime"
        } else {
            "descendant_in_sub"
        }
    } else {
        "independent"
    }
}

pub struct SddRun {
    pub canon: Vec<String>,
    pub tts: Vec<Tt>,
}

pub fn run_sdd_history(ctx: &mut Ctx, cfg: &SddCfg, ops: &[Op], checks: &SddChecks) -> SddRun {
    crate::caps::set_unique(cfg.uniq_cap);
    let _ = rsdd::verif::take_counters();
    let mut builder = CompressionSddBuilder::new(cfg.vtree.to_rsdd());
    builder.set_compression(cfg.compress);
    let builder = builder;
    crate::caps::set_unique(None);
    let b = &builder;
    let n = cfg.n;
    let mut walker = SddWalker::new(n);
    let mut pool: Vec<(SddPtr, Tt)> = vec![
        (SddPtr::PtrFalse, Tt::konst(n, false)),
        (SddPtr::PtrTrue, Tt::konst(n, true)),
    ];
    for v in 0..n {
        pool.push((b.var(crate::gen::lab(v), true), Tt::var(n, v)));
    }
    let mut rep: HashMap<Tt, SddPtr> = HashMap::new();
    let mut known: HashSet<SddPtr> = HashSet::new();
    let hash_map = rsdd::repr::create_semantic_hash_map::<{ rsdd::constants::primes::U64_LARGEST }>(
        crate::gen::label_map().map(|m| m.iter().max().map(|x| x + 1).unwrap_or(1)).unwrap_or(n),
    );
    let mut out = SddRun {
        canon: Vec::new(),
        tts: Vec::new(),
    };
    macro_rules! arg {
        ($a:expr) => {{
            let (p, t) = &pool[$a.0];
            if $a.1 {
                (p.neg(), t.not())
            } else {
                (*p, t.clone())
            }
        }};
    }
    for (step, op) in ops.iter().enumerate() {
        ctx.count("ops", 1);
        ctx.count(&format!("op_{}", op.name()), 1);
        let (got, exp): (SddPtr, Tt) = match op {
            Op::Var(v, p) => (b.var(crate::gen::lab(*v), *p), Tt::lit(n, *v, *p)),
            Op::Not(a) => {
                let (p, t) = arg!(a);
                (b.negate(p), t.not())
            }
            Op::And(x, y) => {
                let (p, t) = arg!(x);
                let (q, u) = arg!(y);
                ctx.seen("apply_cases", &format!("{}:{}{}", apply_case(b, p, q), p.is_neg() as u8, q.is_neg() as u8));
                (b.and(p, q), t.and(&u))
            }
            Op::Or(x, y) => {
                let (p, t) = arg!(x);
                let (q, u) = arg!(y);
                ctx.seen("apply_cases", &format!("{}:{}{}", apply_case(b, p.neg(), q.neg()), !p.is_neg() as u8, !q.is_neg() as u8));
                (b.or(p, q), t.or(&u))
            }
            Op::Xor(x, y) => {
                let (p, t) = arg!(x);
                let (q, u) = arg!(y);
                (b.xor(p, q), t.xor(&u))
            }
            Op::Iff(x, y) => {
                let (p, t) = arg!(x);
                let (q, u) = arg!(y);
                (b.iff(p, q), t.iff(&u))
            }
            Op::Ite(x, y, z) => {
                let (p, t) = arg!(x);
                let (q, u) = arg!(y);
                let (r, w) = arg!(z);
                (b.ite(p, q, r), t.ite(&u, &w))
            }
            Op::Cond(x, v, val) => {
                let (p, t) = arg!(x);
                (b.condition(p, crate::gen::lab(*v), *val), t.cofactor(*v, *val))
            }
            Op::Exists(x, v) => {
                let (p, t) = arg!(x);
                (b.exists(p, crate::gen::lab(*v)), t.exists(*v))
            }
            Op::Compose(x, v, y) => {
                let (p, t) = arg!(x);
                let (q, u) = arg!(y);
                (b.compose(p, crate::gen::lab(*v), q), t.compose_doc(*v, &u))
            }
            _ => panic!("HARNESS: op not defined for SDDs"),
        };
        let got_tt = walker.tt(got);
        if checks.function {
            let key = if exp.is_trivial() {
                None
            } else {
                let mut h = crate::rng::hash_str(op.name());
                h = crate::rng::mix(h ^ exp.hash64());
                h = crate::rng::mix(h ^ crate::rng::hash_str(&cfg.vtree.to_json().to_string()));
                Some(crate::rng::mix(h ^ cfg.compress as u64))
            };
            ctx.case_eval(key);
            if got_tt != exp {
                ctx.violation(
                    &format!("sdd.op.{}", op.name()),
                    &format!("{} wrong function", op.name()),
                    json!({"step": step, "op": op.to_json(), "cfg": cfg.to_json(),
                        "observed": got_tt.hex(), "expected": exp.hex(),
                        "history": ops[..=step].iter().map(|o| o.to_json()).collect::<Vec<_>>()}),
                );
            }
        }
        if checks.wellformed {
            match step % 5 {
                1 => {
                    let _ = got.cached_semantic_hash(b.vtree_manager(), &hash_map);
                    ctx.count("annotating_queries", 1);
                }
                3 => {
                    let _ = got.count_nodes();
                    ctx.count("annotating_queries", 1);
                }
                _ => {}
            }
            check_wellformed(ctx, cfg, b, got, &got_tt, &mut walker, &mut rep, &mut known, step, op);
        }
        if checks.record_canon {
            out.canon.push(sdd_canon_string(got));
            out.tts.push(got_tt.clone());
        }
        if checks.cold_replay_every > 0 && step % checks.cold_replay_every == 0 {
            cold_replay(ctx, cfg, op, &pool, got, step);
        }
        pool.push((got, if checks.function { exp } else { got_tt }));
        let last = step + 1 == ops.len();
        if checks.function && (step % 16 == 15 || last) {
            let mut fresh = SddWalker::new(n);
            for (i, (p, t)) in pool.iter().enumerate() {
                ctx.count("drift_rechecks", 1);
                if fresh.tt(*p) != *t {
                    ctx.violation(
                        "sdd.drift",
                        "earlier result changed function",
                        json!({"pool_index": i, "after_step": step, "cfg": cfg.to_json()}),
                    );
                    break;
                }
            }
        }
    }
    let (g, _, _) = rsdd::verif::take_counters();
    ctx.count("unique_table_grows", g);
    if g > 0 {
        ctx.count("histories_with_growth", 1);
    }
    ctx.count("histories", 1);
    ctx.seen("vtree_families", &cfg.family);
    ctx.seen("vtree_shapes", &cfg.vtree.shape_string());
    ctx.count(if cfg.compress { "histories_compressed" } else { "histories_uncompressed" }, 1);
    if ctx.wants_sample() {
        ctx.sample(json!({"cfg": cfg.to_json(),
            "ops": ops.iter().take(10).map(|o| o.to_json()).collect::<Vec<_>>(), "table_grows": g}));
    }
    out
}

#[allow(clippy::too_many_arguments)]
fn check_wellformed<'a>(
    ctx: &mut Ctx,
    cfg: &SddCfg,
    b: &'a CompressionSddBuilder<'a>,
    got: SddPtr<'a>,
    got_tt: &Tt,
    walker: &mut SddWalker,
    rep: &mut HashMap<Tt, SddPtr<'a>>,
    known: &mut HashSet<SddPtr<'a>>,
    step: usize,
    op: &Op,
) {
    let n = cfg.n;
    ctx.count("wf_results", 1);
    let mut viol = |ctx: &mut Ctx, sub: &str, why: &str, extra: Value| {
        ctx.violation(
            sub,
            why,
            json!({"step": step, "op": op.to_json(), "cfg": cfg.to_json(), "extra": extra,
                "diagram": sdd_canon_string(got)}),
        );
    };
    // canonicity over results and every reachable node, both polarities
    let mut canon = |ctx: &mut Ctx, p: SddPtr<'a>, t: &Tt, what: &str| {
        for (q, u) in [(p, t.clone()), (p.neg(), t.not())] {
            match rep.get(&u) {
                Some(r) => {
                    ctx.count("canon_repeat_functions", 1);
                    if *r != q || !b.eq(*r, q) {
                        ctx.violation(
                            "sdd.canon.duplicate",
                            "two pointers for one function",
                            json!({"step": step, "op": op.to_json(), "cfg": cfg.to_json(), "what": what,
                                "function": u.hex(), "first": sdd_canon_string(*r), "second": sdd_canon_string(q)}),
                        );
                    }
                }
                None => {
                    rep.insert(u.clone(), q);
                }
            }
        }
    };
    canon(ctx, got, got_tt, "result");
    ctx.case_eval(if got_tt.is_trivial() {
        None
    } else {
        Some(crate::rng::mix(got_tt.hash64() ^ crate::rng::hash_str(&cfg.vtree.to_json().to_string())))
    });
    for nd in sdd_nodes(got) {
        if !known.insert(nd) {
            continue;
        }
        ctx.count("nodes_wf_checked", 1);
        let nd_tt = walker.tt(nd);
        canon(ctx, nd, &nd_tt, "reachable node");
        let idx = nd.vtree();
        // the vtree position is looked up in the harness's own tree (in-order numbering),
        // not through the manager under test
        let inorder = cfg.vtree.inorder();
        let (lvars, rvars): (Vec<usize>, Vec<usize>) = match inorder.get(idx.value()) {
            Some(Vt::Node(l, r)) => (l.leaves(), r.leaves()),
            _ => {
                viol(ctx, "sdd.wf.vtree", "decision node normalised for a vtree leaf or an index outside the vtree", json!({"index": idx.value()}));
                continue;
            }
        };
        let elems: Vec<(SddPtr, SddPtr)> = nd.node_iter().map(|a| (a.prime(), a.sub())).collect();
        ctx.maxc("elements_per_node", elems.len() as u64);
        let pts: Vec<Tt> = elems.iter().map(|(p, _)| walker.tt(*p)).collect();
        let sts: Vec<Tt> = elems.iter().map(|(_, s)| walker.tt(*s)).collect();
        let mut union = Tt::konst(n, false);
        for (i, pt) in pts.iter().enumerate() {
            if pt.is_false() {
                viol(ctx, "sdd.wf.prime_false", "false prime", json!({"index": idx.value()}));
            }
            if !union.and(pt).is_false() {
                viol(ctx, "sdd.wf.primes_overlap", "primes not mutually exclusive", json!({"index": idx.value(), "element": i}));
            }
            union = union.or(pt);
            for v in pt.support() {
                if !lvars.contains(&v) {
                    viol(ctx, "sdd.wf.prime_scope", "prime mentions a variable outside the left vtree child",
                        json!({"index": idx.value(), "var": v, "left": lvars}));
                }
            }
            for v in sts[i].support() {
                if !rvars.contains(&v) {
                    viol(ctx, "sdd.wf.sub_scope", "sub mentions a variable outside the right vtree child",
                        json!({"index": idx.value(), "var": v, "right": rvars}));
                }
            }
        }
        if !union.is_true() {
            viol(ctx, "sdd.wf.primes_exhaustive", "primes not exhaustive", json!({"index": idx.value()}));
        }
        if cfg.compress {
            for i in 0..sts.len() {
                for j in (i + 1)..sts.len() {
                    if sts[i] == sts[j] {
                        viol(ctx, "sdd.wf.compressed", "two elements with the same sub", json!({"index": idx.value(), "i": i, "j": j}));
                    }
                }
            }
        }
        // trimming
        if elems.len() == 1 {
            viol(ctx, "sdd.wf.trim", "single-element decision node", json!({"index": idx.value()}));
        }
        if elems.len() == 2 && cfg.compress {
            let (a, c) = (&sts[0], &sts[1]);
            if (a.is_true() && c.is_false()) || (a.is_false() && c.is_true()) {
                viol(ctx, "sdd.wf.trim", "node of the form {(p,T),(!p,F)}", json!({"index": idx.value()}));
            }
        }
        // cross-check with the library's own predicate (evidence only)
        if cfg.compress && !nd.is_canonical() {
            ctx.count("library_is_canonical_disagrees", 1);
        }
    }
}

/// C16(c): the result of an operation in a warm builder must be isomorphic to the
/// result of the same operation in a fresh builder (cold caches) whose operands are
/// rebuilt from their truth tables by a different route.
fn cold_replay(ctx: &mut Ctx, cfg: &SddCfg, op: &Op, pool: &[(SddPtr, Tt)], got: SddPtr, step: usize) {
    if !cfg.compress {
        return;
    }
    let mut fresh = CompressionSddBuilder::new(cfg.vtree.to_rsdd());
    fresh.set_compression(true);
    let fresh = fresh;
    let f = &fresh;
    let mk = |a: &Arg| -> SddPtr {
        let t = if a.1 { pool[a.0].1.not() } else { pool[a.0].1.clone() };
        sdd_from_tt(f, &t, 0)
    };
    let r = match op {
        Op::Var(v, p) => f.var(crate::gen::lab(*v), *p),
        Op::Not(a) => f.negate(mk(a)),
        Op::And(x, y) => f.and(mk(x), mk(y)),
        Op::Or(x, y) => f.or(mk(x), mk(y)),
        Op::Xor(x, y) => f.xor(mk(x), mk(y)),
        Op::Iff(x, y) => f.iff(mk(x), mk(y)),
        Op::Ite(x, y, z) => f.ite(mk(x), mk(y), mk(z)),
        Op::Cond(x, v, val) => f.condition(mk(x), crate::gen::lab(*v), *val),
        Op::Exists(x, v) => f.exists(mk(x), crate::gen::lab(*v)),
        Op::Compose(x, v, y) => f.compose(mk(x), crate::gen::lab(*v), mk(y)),
        _ => return,
    };
    ctx.count("cold_replays", 1);
    let a = sdd_canon_string(got);
    let c = sdd_canon_string(r);
    if a != c {
        ctx.violation(
            "sdd.cache.cold_vs_warm",
            "warm-cache result differs from cold-cache result",
            json!({"step": step, "op": op.to_json(), "cfg": cfg.to_json(), "warm": a, "cold": c}),
        );
    }
}

pub fn random_sdd_cfg(rng: &mut Rng, max_n: usize, compress: bool) -> SddCfg {
    let n = rng.range(1, max_n);
    let (family, vtree) = crate::gen::random_vtree(n, rng);
    SddCfg {
        n,
        vtree,
        family: family.to_string(),
        compress,
        uniq_cap: Some(*rng.pick(&[2usize, 4, 8, 16, 64, 1024])),
        nops: 0,
    }
}
