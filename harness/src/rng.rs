//! Own deterministic PRNG (SplitMix64) so that every case is a pure function of
//! (VERIF_SEED, property, regime, case id) and is independent of sharding.

#[derive(Clone, Debug)]
pub struct Rng(pub u64);

pub fn mix(mut z: u64) -> u64 {
    z = z.wrapping_add(0x9E3779B97F4A7C15);
    z = (z ^ (z >> 30)).wrapping_mul(0xBF58476D1CE4E5B9);
    z = (z ^ (z >> 27)).wrapping_mul(0x94D049BB133111EB);
    z ^ (z >> 31)
}

pub fn hash_str(s: &str) -> u64 {
    let mut h: u64 = 0xcbf29ce484222325;
    for b in s.bytes() {
        h ^= b as u64;
        h = h.wrapping_mul(0x100000001b3);
    }
    h
}

impl Rng {
    pub fn new(seed: u64) -> Rng {
        Rng(mix(seed ^ 0xD6E8FEB86659FD93))
    }
    /// rng for one case: independent of how cases are sharded
    pub fn for_case(seed: u64, prop: &str, regime: &str, case: u64) -> Rng {
        let mut s = mix(seed);
        s = mix(s ^ hash_str(prop));
        s = mix(s ^ hash_str(regime));
        s = mix(s ^ case.wrapping_mul(0x9E3779B97F4A7C15));
        Rng(s)
    }
    pub fn next(&mut self) -> u64 {
        self.0 = self.0.wrapping_add(0x9E3779B97F4A7C15);
        let mut z = self.0;
        z = (z ^ (z >> 30)).wrapping_mul(0xBF58476D1CE4E5B9);
        z = (z ^ (z >> 27)).wrapping_mul(0x94D049BB133111EB);
        z ^ (z >> 31)
    }
    /// uniform in 0..n (n > 0)
    pub fn below(&mut self, n: usize) -> usize {
        debug_assert!(n > 0);
        (self.next() % (n as u64)) as usize
    }
    /// uniform in lo..=hi
    pub fn range(&mut self, lo: usize, hi: usize) -> usize {
        lo + self.below(hi - lo + 1)
    }
    pub fn bool(&mut self) -> bool {
        self.next() & 1 == 1
    }
    /// true with probability num/den
    pub fn chance(&mut self, num: usize, den: usize) -> bool {
        self.below(den) < num
    }
    pub fn shuffle<T>(&mut self, v: &mut [T]) {
        for i in (1..v.len()).rev() {
            let j = self.below(i + 1);
            v.swap(i, j);
        }
    }
    pub fn perm(&mut self, n: usize) -> Vec<usize> {
        let mut v: Vec<usize> = (0..n).collect();
        self.shuffle(&mut v);
        v
    }
    pub fn pick<'a, T>(&mut self, v: &'a [T]) -> &'a T {
        &v[self.below(v.len())]
    }
}

/// all permutations of 0..n in lexicographic order
pub fn all_perms(n: usize) -> Vec<Vec<usize>> {
    fn rec(cur: &mut Vec<usize>, used: &mut Vec<bool>, n: usize, out: &mut Vec<Vec<usize>>) {
        if cur.len() == n {
            out.push(cur.clone());
            return;
        }
        for i in 0..n {
            if !used[i] {
                used[i] = true;
                cur.push(i);
                rec(cur, used, n, out);
                cur.pop();
                used[i] = false;
            }
        }
    }
    let mut out = Vec::new();
    rec(&mut Vec::new(), &mut vec![false; n], n, &mut out);
    out
}
