#!/bin/bash
# usage: run_all_checks.sh [quick|thorough]  -- runs every registered check on the current tree
tier="${1:-quick}"; rc=0
for p in C01 C02 C03 C04 C05 C06 C07 C08 C09 C10 C11 C12 C13 C14 C15 C16 C17 C18 C19; do
  /usr/bin/time -f "   ($p wall %es, max rss %MKB)" ./check $p --tier $tier 2>&1 | grep -E "tier=|VIOLATION|INCONCLUSIVE|KNOWN-FINDING|wall" || true
  [ ${PIPESTATUS[0]} -ne 0 ] && rc=1
done
python3-vt validate.py
exit $rc
