"""Sanitizer legs of the thorough tier: the same monitor workloads executed under
Miri (undefined behaviour / aliasing interpreter), AddressSanitizer and valgrind
memcheck.  A sanitizer report is a violation event; a tool failure is inconclusive.

Leak reports are disabled everywhere: the builders' bump arenas never run
destructors by design and the C API has no free function for diagram handles
(DESIGN.md, S15)."""
import json, os, re, subprocess, sys, time
from concurrent.futures import ThreadPoolExecutor

MIRIFLAGS = "-Zmiri-ignore-leaks -Zmiri-disable-isolation -Zmiri-env-forward=RSDD_MON_SMALL_TABLES"

LEGS = {
    # unique table driven directly against the set model, 2..16 initial slots, growth every few inserts
    "miri_table": {"tool": "miri", "prop": "C02", "cases": [("table", i) for i in range(12)]},
    # unsafe get_or_insert of the BDD builder across growth + canonicity/membership probes
    "miri_bdd": {"tool": "miri", "prop": "C02", "cases": [("rand", i) for i in range(10)] + [("weak_hash", i) for i in range(4)]},
    # both SDD tables (BinarySDD / SddOr with owned Vec) across growth
    "miri_sdd": {"tool": "miri", "prop": "C04", "cases": [("rand", i) for i in range(10)] + [("weak_hash", i) for i in range(4)]},
    # RefCell<Option<Box<dyn Any>>> scratch traffic of interleaved queries
    "miri_queries": {"tool": "miri", "prop": "C10",
                     "cases": [("bdd", i) for i in range(4)] + [("sdd", i) for i in range(4)] + [("ddnnf", i) for i in range(4)]},
    # FFI boxes, pointer casts, C strings
    "miri_ffi": {"tool": "miri", "prop": "C18", "cases": [("bdd_api", i) for i in range(8)] + [("frontends", i) for i in range(4)] + [("handle_reuse", i) for i in range(6)]},
    # hash-identified builders: get_or_insert_by_hash through the raw table pointer, lookups by hash and by negated hash
    "miri_semantic": {"tool": "miri", "prop": "C11", "cases": [("semantic_sdd", i) for i in range(6)] + [("semantic_ddnnf", i) for i in range(4)]},
    # top-down compilation: unsafe get_or_insert of both d-DNNF node stores, several CNFs per builder
    "miri_topdown": {"tool": "miri", "prop": "C06", "cases": [("rand", i) for i in range(4)] + [("reuse", i) for i in range(4)] + [("weak_hash", i) for i in range(3)]},
    # the whole C11 quick workload incl. two 524 286-node by-hash builders (table growth at real size)
    "asan_semantic": {"tool": "asan", "prop": "C11", "tier": "quick"},
    "asan_bdd": {"tool": "asan", "prop": "C02", "tier": "thorough"},
    "asan_ffi": {"tool": "asan", "prop": "C18", "tier": "quick"},
    "valgrind_ffi": {"tool": "valgrind", "prop": "C18", "cases": [("bdd_api", i) for i in range(12)] + [("frontends", i) for i in range(6)] + [("handle_reuse", i) for i in range(12)]},
}


def _env(extra=None):
    e = dict(os.environ)
    e["CARGO_NET_OFFLINE"] = "true"
    if extra:
        e.update(extra)
    return e


def _parse_worker_stdout(text):
    viols, counters = [], {}
    for line in text.splitlines():
        line = line.strip()
        if not line.startswith("{"):
            continue
        try:
            ev = json.loads(line)
        except Exception:
            continue
        if ev.get("t") == "violation":
            viols.append(ev)
        elif ev.get("t") == "summary":
            for k, v in ev.get("counters", {}).items():
                counters[k] = counters.get(k, 0) + v
    return viols, counters


def _norm(msg):
    """strip run-specific numbers (borrow tags, allocation ids, addresses) from a report line"""
    msg = re.sub(r"<\d+>", "<tag>", msg)
    msg = re.sub(r"alloc\d+", "alloc", msg)
    msg = re.sub(r"0x[0-9a-fA-F]+", "0x..", msg)
    return msg


def _first_repo_frame(text):
    m = re.search(r"(/repo/src/[^\s:]+:\d+)", text)
    return m.group(1) if m else "<no frame in /repo>"


def _run_miri(here, leg, seed):
    harness = os.path.join(here, "harness")
    tdir = os.path.join(here, "target", "miri")
    out = os.path.join(here, "target", "out")
    os.makedirs(out, exist_ok=True)
    env = _env({"MIRIFLAGS": MIRIFLAGS, "RSDD_MON_SMALL_TABLES": "1"})
    base = ["cargo", "+nightly", "miri", "run", "--offline", "--target-dir", tdir, "--"]

    third_party = []

    def third_party_aliasing(se):
        """A Stacked-Borrows (experimental rules) report whose error location is inside a
        third-party crate from the registry, e.g. petgraph 0.5.1's index_twice.  Not rsdd's
        code: the case is re-run under Tree Borrows instead, and the report is listed in the
        evidence, not raised as a violation (DESIGN.md, S15)."""
        m = re.search(r"error: Undefined Behavior:[^\n]*\n\s*-->\s*(\S+)", se)
        return bool(m) and "/.cargo/registry/" in m.group(1) and "Stacked Borrows rules it violated are still experimental" in se, (m.group(1) if m else "")

    def one(case):
        regime, i = case
        cmd = base + [leg["prop"], "--seed", str(seed), "--only", "%s:%d" % (regime, i), "--out", out, "--profile", "miri"]
        t0 = time.time()
        try:
            r = subprocess.run(cmd, cwd=harness, env=env, stdout=subprocess.PIPE, stderr=subprocess.PIPE, text=True, timeout=3000)
            tp, where = third_party_aliasing(r.stderr) if r.returncode != 0 else (False, "")
            if tp:
                third_party.append({"case": "%s:%d" % (regime, i), "where": re.sub(r".*/registry/src/[^/]+/", "", where)})
                env2 = dict(env)
                env2["MIRIFLAGS"] = MIRIFLAGS + " -Zmiri-tree-borrows"
                r = subprocess.run(cmd, cwd=harness, env=env2, stdout=subprocess.PIPE, stderr=subprocess.PIPE, text=True, timeout=3000)
            return case, r.returncode, r.stdout, r.stderr, time.time() - t0
        except subprocess.TimeoutExpired:
            return case, None, "", "timeout", time.time() - t0

    results = []
    cases = list(leg["cases"])
    # first case alone (it also builds), the rest in parallel
    results.append(one(cases[0]))
    if results[0][1] is None or (results[0][1] != 0 and "Undefined Behavior" not in results[0][3] and "error: could not compile" in results[0][3]):
        return {"summary": {"tool": "miri", "ran": 0}, "violations": [], "inconclusive": ["miri build/run failed: " + results[0][3][-400:]]}
    with ThreadPoolExecutor(max_workers=max(1, (os.cpu_count() or 4) - 1)) as ex:
        results += list(ex.map(one, cases[1:]))
    viols, inconcl, counters, ran = [], [], {}, 0
    for (regime, i), rc, so, se, dt in results:
        v, c = _parse_worker_stdout(so)
        for k, x in c.items():
            counters[k] = counters.get(k, 0) + x
        viols += v
        if rc is None:
            inconcl.append("miri %s:%d timed out" % (regime, i))
        elif rc != 0:
            if "Undefined Behavior" in se or "error: unsupported operation" in se or "memory leaked" in se or "error:" in se:
                msg = [l for l in se.splitlines() if l.startswith("error")]
                viols.append({"t": "violation", "sub": "sanitizer.miri", "sig": "miri: %s @ %s" % (_norm(msg[0] if msg else "error")[:140], _first_repo_frame(se)),
                              "regime": regime, "case": i, "profile": "mon", "seed": seed,
                              "detail": {"tool": "miri", "flags": MIRIFLAGS, "stderr_tail": se[-2500:]}})
            else:
                inconcl.append("miri %s:%d exited %s: %s" % (regime, i, rc, se[-200:]))
        else:
            ran += 1
    return {"summary": {"tool": "miri", "flags": MIRIFLAGS, "cases_clean": ran, "cases": len(cases), "observed": counters,
                        "third_party_stacked_borrows_reports_rerun_under_tree_borrows": third_party},
            "violations": viols, "inconclusive": inconcl}


def _run_asan(here, leg, seed):
    harness = os.path.join(here, "harness")
    tdir = os.path.join(here, "target", "asan")
    out = os.path.join(here, "target", "out")
    os.makedirs(out, exist_ok=True)
    env = _env({"RUSTFLAGS": "-Zsanitizer=address -Cforce-frame-pointers=yes"})
    r = subprocess.run(["cargo", "+nightly", "build", "--offline", "--profile", "monrel", "--target", "x86_64-unknown-linux-gnu", "--target-dir", tdir],
                       cwd=harness, env=env, stdout=subprocess.PIPE, stderr=subprocess.STDOUT, text=True)
    if r.returncode != 0:
        return {"summary": {"tool": "asan", "ran": 0}, "violations": [], "inconclusive": ["asan build failed: " + r.stdout[-400:]]}
    binary = os.path.join(tdir, "x86_64-unknown-linux-gnu", "monrel", "rsdd-mon")
    n = os.cpu_count() or 4
    renv = dict(os.environ)
    renv["ASAN_OPTIONS"] = "detect_leaks=0:halt_on_error=1:abort_on_error=0:exitcode=77:symbolize=1"
    procs = []
    for s in range(n):
        cmd = [binary, leg["prop"], "--seed", str(seed), "--shard", str(s), "--nshards", str(n), "--scale", "1",
               "--tier", leg.get("tier", "quick"), "--profile", "asan", "--out", out]
        procs.append((s, subprocess.Popen(cmd, stdout=subprocess.PIPE, stderr=subprocess.PIPE, text=True, env=renv, cwd=here)))
    viols, inconcl, counters, clean = [], [], {}, 0
    for s, p in procs:
        try:
            so, se = p.communicate(timeout=3600)
        except subprocess.TimeoutExpired:
            p.kill()
            inconcl.append("asan shard %d timed out" % s)
            continue
        v, c = _parse_worker_stdout(so)
        viols += v
        for k, x in c.items():
            counters[k] = counters.get(k, 0) + x
        if "AddressSanitizer" in se:
            first = [l for l in se.splitlines() if "ERROR: AddressSanitizer" in l]
            viols.append({"t": "violation", "sub": "sanitizer.asan", "sig": "asan: %s @ %s" % (_norm(first[0] if first else "report")[:140], _first_repo_frame(se)),
                          "regime": "shard", "case": s, "profile": "monrel", "seed": seed, "py": True,
                          "detail": {"tool": "asan", "stderr_tail": se[-2500:]}})
        elif p.returncode != 0:
            inconcl.append("asan shard %d exited %s: %s" % (s, p.returncode, se[-200:]))
        else:
            clean += 1
    return {"summary": {"tool": "asan", "shards_clean": clean, "shards": n, "observed": counters}, "violations": viols, "inconclusive": inconcl}


def _run_valgrind(here, leg, seed):
    binary = os.path.join(here, "target", "mon", "rsdd-mon")
    out = os.path.join(here, "target", "out")
    if not os.path.exists(binary):
        return {"summary": {"tool": "valgrind", "ran": 0}, "violations": [], "inconclusive": ["mon binary missing"]}

    def one(case):
        regime, i = case
        cmd = ["valgrind", "--error-exitcode=88", "--leak-check=no", "-q", binary, leg["prop"], "--seed", str(seed),
               "--only", "%s:%d" % (regime, i), "--out", out, "--profile", "valgrind"]
        try:
            r = subprocess.run(cmd, cwd=here, stdout=subprocess.PIPE, stderr=subprocess.PIPE, text=True, timeout=3000)
            return case, r.returncode, r.stdout, r.stderr
        except subprocess.TimeoutExpired:
            return case, None, "", "timeout"

    with ThreadPoolExecutor(max_workers=os.cpu_count() or 4) as ex:
        results = list(ex.map(one, leg["cases"]))
    viols, inconcl, counters, clean = [], [], {}, 0
    for (regime, i), rc, so, se in results:
        v, c = _parse_worker_stdout(so)
        viols += v
        for k, x in c.items():
            counters[k] = counters.get(k, 0) + x
        if rc == 88 or "== Invalid" in se or "uninitialised" in se:
            first = [l for l in se.splitlines() if "Invalid" in l or "uninitialised" in l or "Conditional jump" in l]
            viols.append({"t": "violation", "sub": "sanitizer.memcheck", "sig": "memcheck: %s @ %s" % (_norm(first[0] if first else "error")[:140], _first_repo_frame(se)),
                          "regime": regime, "case": i, "profile": "mon", "seed": seed,
                          "detail": {"tool": "valgrind memcheck", "stderr_tail": se[-2500:]}})
        elif rc is None:
            inconcl.append("valgrind %s:%d timed out" % (regime, i))
        elif rc != 0:
            inconcl.append("valgrind %s:%d exited %s: %s" % (regime, i, rc, se[-200:]))
        else:
            clean += 1
    return {"summary": {"tool": "valgrind memcheck", "cases_clean": clean, "cases": len(leg["cases"]), "observed": counters},
            "violations": viols, "inconclusive": inconcl}


def replay(here, ev):
    """re-run the single case of a recorded sanitizer event under the same tool"""
    tool = ev["detail"].get("tool", "")
    prop = ev["prop"]
    seed = int(ev.get("seed", 1))
    if tool == "miri":
        return _run_miri(here, {"prop": prop, "cases": [(ev["regime"], ev["case"])]}, seed)
    if tool.startswith("valgrind"):
        return _run_valgrind(here, {"prop": prop, "cases": [(ev["regime"], ev["case"])]}, seed)
    name = [k for k, v in LEGS.items() if v["tool"] == "asan" and v["prop"] == prop]
    return _run_asan(here, LEGS[name[0]], seed)


def run(here, name, pid, seed):
    leg = LEGS[name]
    t0 = time.time()
    if leg["tool"] == "miri":
        r = _run_miri(here, leg, seed)
    elif leg["tool"] == "asan":
        r = _run_asan(here, leg, seed)
    else:
        r = _run_valgrind(here, leg, seed)
    r["summary"]["wall_s"] = round(time.time() - t0, 1)
    r["summary"]["leg"] = name
    return r


if __name__ == "__main__":
    here = os.path.dirname(os.path.dirname(os.path.abspath(__file__)))
    res = run(here, sys.argv[1], LEGS[sys.argv[1]]["prop"], int(sys.argv[2]) if len(sys.argv) > 2 else 1)
    print(json.dumps(res["summary"], indent=1)[:3000])
    for v in res["violations"][:5]:
        print("VIOL", json.dumps(v)[:1500])
    print("inconclusive:", res["inconclusive"])
