"""C19: run the command-line tools built from /repo on generated input files and
compare their output with brute force (fractions.Fraction, exact)."""
import json, os, random, re, subprocess, shutil, time
from concurrent.futures import ThreadPoolExecutor
from fractions import Fraction
import ddjson

NAMES = ["B", "a", "A1", "x10", "x9", "x2", "Z", "b", "ab", "aB", "_k", "v0", "V0", "x", "y1", "Y"]


def build(here, release=False):
    env = dict(os.environ)
    env["CARGO_NET_OFFLINE"] = "true"
    tgt = os.path.join(here, "target", "repo")
    cmd = ["cargo", "build", "--offline", "--features", "cli", "--bins", "--target-dir", tgt]
    if release:
        cmd.append("--release")
    r = subprocess.run(cmd, cwd="/repo", env=env, stdout=subprocess.PIPE, stderr=subprocess.STDOUT, text=True)
    if r.returncode != 0:
        return None, r.stdout[-3000:]
    return os.path.join(tgt, "release" if release else "debug"), ""


# ------------------------------------------------------------------ formulas

def gen_expr(rng, nvars, depth):
    if depth == 0 or rng.random() < 0.2:
        return ("lit", rng.randrange(nvars), rng.random() < 0.5)
    d = depth - 1
    k = rng.randrange(7)
    if k == 0:
        return ("not", gen_expr(rng, nvars, d))
    if k in (1, 2):
        return ("and", gen_expr(rng, nvars, d), gen_expr(rng, nvars, d))
    if k == 3:
        return ("or", gen_expr(rng, nvars, d), gen_expr(rng, nvars, d))
    if k == 4:
        return ("iff", gen_expr(rng, nvars, d), gen_expr(rng, nvars, d))
    if k == 5:
        return ("xor", gen_expr(rng, nvars, d), gen_expr(rng, nvars, d))
    return ("ite", gen_expr(rng, nvars, d), gen_expr(rng, nvars, d), gen_expr(rng, nvars, d))


def sexpr(e, names):
    t = e[0]
    if t == "lit":
        return "(Var %s)" % names[e[1]] if e[2] else "(Not (Var %s))" % names[e[1]]
    if t == "not":
        return "(Not %s)" % sexpr(e[1], names)
    tag = {"and": "And", "or": "Or", "iff": "Iff", "xor": "Xor", "ite": "Ite"}[t]
    return "(%s %s)" % (tag, " ".join(sexpr(x, names) for x in e[1:]))


def ev(e, val):
    t = e[0]
    if t == "lit":
        return val[e[1]] == e[2]
    if t == "not":
        return not ev(e[1], val)
    if t == "and":
        return ev(e[1], val) and ev(e[2], val)
    if t == "or":
        return ev(e[1], val) or ev(e[2], val)
    if t == "iff":
        return ev(e[1], val) == ev(e[2], val)
    if t == "xor":
        return ev(e[1], val) != ev(e[2], val)
    return ev(e[2], val) if ev(e[1], val) else ev(e[3], val)


def used_vars(e, out):
    if e[0] == "lit":
        out.add(e[1])
    else:
        for x in e[1:]:
            used_vars(x, out)


def run_cmd(cmd, timeout=60):
    try:
        r = subprocess.run(cmd, stdout=subprocess.PIPE, stderr=subprocess.PIPE, text=True, timeout=timeout)
        return r.returncode, r.stdout, r.stderr
    except subprocess.TimeoutExpired:
        return None, "", "timeout"


# ------------------------------------------------------------------ cases

def case_wmc(bindir, work, seed, i):
    rng = random.Random("%d/wmc/%d" % (seed, i))
    nvars = rng.randint(1, 7)
    names = rng.sample(NAMES, nvars)
    e = gen_expr(rng, nvars, rng.randint(1, 5))
    used = set()
    used_vars(e, used)
    fvars = sorted(names[v] for v in used)          # the tool numbers them lexicographically
    # weights: dyadic eighths in [0, 1.5]; sometimes a formula variable without weights
    # (documented default 0/0) and sometimes extra variables that only occur in the weights file
    wfile = {}
    for nm in fvars:
        if rng.random() < 0.06:
            continue
        if rng.random() < 0.5:
            h = rng.randint(0, 8)
            wfile[nm] = (Fraction(8 - h, 8), Fraction(h, 8))
        else:
            wfile[nm] = (Fraction(rng.randint(0, 12), 8), Fraction(rng.randint(0, 12), 8))
    extra = [n for n in NAMES if n not in names]
    for nm in rng.sample(extra, rng.choice([0, 0, 1, 2])):
        wfile[nm] = (Fraction(rng.randint(0, 12), 8), Fraction(rng.randint(0, 12), 8))
    allvars = fvars + sorted(n for n in wfile if n not in fvars)
    d = os.path.join(work, "wmc%d" % i)
    os.makedirs(d, exist_ok=True)
    text = sexpr(e, names)
    open(os.path.join(d, "f.sexp"), "w").write(text)
    json.dump({k: {"low": float(v[0]), "high": float(v[1])} for k, v in wfile.items()}, open(os.path.join(d, "w.json"), "w"))
    cmd = [os.path.join(bindir, "weighted_model_count"), "-f", os.path.join(d, "f.sexp"), "-w", os.path.join(d, "w.json")]
    order = None
    if rng.random() < 0.6:
        order = allvars[:]
        rng.shuffle(order)
        json.dump({"order": order}, open(os.path.join(d, "c.json"), "w"))
        cmd += ["-c", os.path.join(d, "c.json")]
    # oracle over formula + weight-file variables
    idx = {names[v]: v for v in used}
    count = 0
    wsum = Fraction(0)
    n = len(allvars)
    for a in range(1 << n):
        val = {}
        for k, nm in enumerate(allvars):
            if nm in idx:
                val[idx[nm]] = bool((a >> k) & 1)
        if ev(e, val):
            count += 1
            p = Fraction(1)
            for k, nm in enumerate(allvars):
                lo, hi = wfile.get(nm, (Fraction(0), Fraction(0)))
                p *= hi if (a >> k) & 1 else lo
            wsum += p
    rc, out, err = run_cmd(cmd)
    info = {"kind": "wmc", "case": i, "formula": text, "weights": {k: [str(v[0]), str(v[1])] for k, v in wfile.items()}, "order": order,
            "expected_models": count, "expected_weighted": str(wsum)}
    nontrivial = 0 < count < (1 << n)
    if rc != 0:
        return [("cli.wmc.crash", "weighted_model_count failed on an in-domain input", dict(info, rc=rc, stderr=err[-600:]))], nontrivial, info
    # the two counts are located by the words "unweighted" / "weighted", not by the exact label text
    got_c = got_w = None
    for line in out.splitlines():
        low = line.lower()
        nums = re.findall(r"-?[0-9]+(?:\.[0-9]+)?(?:[eE][-+]?[0-9]+)?", line.split(":", 1)[1] if ":" in line else line)
        if not nums:
            continue
        if "unweighted" in low:
            got_c = nums[-1]
        elif "weighted" in low and "default" not in low:
            got_w = nums[-1]
    v = []
    if got_c is None or got_w is None:
        return [("cli.wmc.output", "could not find the two counts in the output", dict(info, stdout=out[-600:]))], nontrivial, info
    if got_c != str(count):
        v.append(("cli.wmc.unweighted", "unweighted model count is not the number of models", dict(info, got=got_c)))
    try:
        gw = Fraction(float(got_w))
    except Exception:
        gw = None
    if gw != wsum:
        v.append(("cli.wmc.weighted", "weighted model count is not the weighted sum over models", dict(info, got=got_w)))
    return v, nontrivial, info


def case_formula_to_bdd(bindir, work, seed, i):
    rng = random.Random("%d/f2b/%d" % (seed, i))
    nvars = rng.randint(1, 7)
    names = rng.sample(NAMES, nvars)
    e = gen_expr(rng, nvars, rng.randint(1, 5))
    used = set()
    used_vars(e, used)
    fvars = sorted(names[v] for v in used)
    d = os.path.join(work, "f2b%d" % i)
    os.makedirs(d, exist_ok=True)
    text = sexpr(e, names)
    open(os.path.join(d, "f.sexp"), "w").write(text)
    cmd = [os.path.join(bindir, "bottomup_formula_to_bdd"), "-f", os.path.join(d, "f.sexp")]
    order = None
    if rng.random() < 0.5:
        order = fvars[:]
        rng.shuffle(order)
        json.dump({"order": order}, open(os.path.join(d, "c.json"), "w"))
        cmd += ["--ordering", "manual", "-c", os.path.join(d, "c.json")]
    n = len(fvars)
    idx = {names[v]: v for v in used}
    exp = 0
    for a in range(1 << n):
        val = {idx[nm]: bool((a >> k) & 1) for k, nm in enumerate(fvars)}
        if ev(e, val):
            exp |= 1 << a
    info = {"kind": "formula_to_bdd", "case": i, "formula": text, "order": order}
    nontrivial = exp not in (0, (1 << (1 << n)) - 1)
    rc, out, err = run_cmd(cmd)
    if rc != 0:
        return [("cli.formula_to_bdd.crash", "bottomup_formula_to_bdd failed on an in-domain input", dict(info, rc=rc, stderr=err[-600:]))], nontrivial, info
    try:
        doc = json.loads(out.strip().splitlines()[-1])
        got = ddjson.bdd_truth_table(doc, n)
    except Exception as ex:
        return [("cli.formula_to_bdd.json", "output is not a BDD node table", dict(info, error=repr(ex), stdout=out[-600:]))], nontrivial, info
    if len(got) != 1 or got[0] != exp:
        return [("cli.formula_to_bdd.function", "emitted JSON diagram does not denote the input formula", dict(info, json=out.strip()[-1500:]))], nontrivial, info
    return [], nontrivial, info


def case_cnf_to_bdd(bindir, work, seed, i):
    rng = random.Random("%d/c2b/%d" % (seed, i))
    n = rng.randint(1, 8)
    m = rng.randint(1, n + 3)
    clauses = []
    for _ in range(m):
        w = rng.randint(1, 4)
        clauses.append([(rng.randrange(n), rng.random() < 0.5) for _ in range(w)])
    # now and then the clause-free formula over 0..5 declared variables (`p cnf n 0`), or only
    # empty clauses
    degenerate = rng.random() < 0.04
    if degenerate:
        clauses = [[] for _ in range(rng.randint(0, 2))]
    nv = max([v for c in clauses for v, _ in c] + [-1]) + 1
    declared = nv if not degenerate else rng.randint(0, 5)
    d = os.path.join(work, "c2b%d" % i)
    os.makedirs(d, exist_ok=True)
    order = rng.choice(["auto_minfill", "auto_force"])
    # sometimes an empty clause (a lone 0), under either order heuristic
    if not degenerate and rng.random() < 0.08:
        clauses.insert(rng.randrange(len(clauses) + 1), [])
    # layouts: one clause per line, several clauses per line, clauses wrapped over lines
    # (also with the terminating 0 alone on a line), comment lines
    layout = rng.choice(["plain", "plain", "packed", "wrapped"])
    toks = []
    for c in clauses:
        toks.append([("%d" if p else "-%d") % (v + 1) for v, p in c] + ["0"])
    body = ""
    if layout == "plain":
        body = "".join(" ".join(t) + "\n" for t in toks)
    elif layout == "packed":
        flat = [x for t in toks for x in t]
        while flat:
            k = rng.randint(1, 9)
            body += " ".join(flat[:k]) + "\n"
            flat = flat[k:]
    else:
        for t in toks:
            cut = rng.randint(1, len(t)) if len(t) > 1 else 1
            body += " ".join(t[:cut]) + "\n"
            if t[cut:]:
                body += " ".join(t[cut:]) + "\n"
    text = ("c generated\n" if rng.random() < 0.3 else "") + "p cnf %d %d\n" % (declared, len(clauses)) + body
    open(os.path.join(d, "f.cnf"), "w").write(text)
    cmd = [os.path.join(bindir, "bottomup_cnf_to_bdd"), "-f", os.path.join(d, "f.cnf"), "--order", order]
    exp = 0
    for a in range(1 << nv):
        if all(any(bool((a >> v) & 1) == p for v, p in c) for c in clauses):
            exp |= 1 << a
    info = {"kind": "cnf_to_bdd", "case": i, "dimacs": text, "order": order, "layout": layout, "clause_free_or_only_empty_clauses": degenerate}
    nontrivial = exp not in (0, (1 << (1 << nv)) - 1)
    rc, out, err = run_cmd(cmd)
    if rc != 0:
        return [("cli.cnf_to_bdd.crash", "bottomup_cnf_to_bdd failed on an in-domain input", dict(info, rc=rc, stderr=err[-600:]))], nontrivial, info
    try:
        doc = json.loads(out.strip().splitlines()[-1])
        got = ddjson.bdd_truth_table(doc, nv)
    except Exception as ex:
        return [("cli.cnf_to_bdd.json", "output is not a BDD node table", dict(info, error=repr(ex), stdout=out[-600:]))], nontrivial, info
    if len(got) != 1 or got[0] != exp:
        return [("cli.cnf_to_bdd.function", "emitted JSON diagram does not denote the input CNF", dict(info, json=out.strip()[-1500:]))], nontrivial, info
    return [], nontrivial, info


KINDS = {"wmc": case_wmc, "formula_to_bdd": case_formula_to_bdd, "cnf_to_bdd": case_cnf_to_bdd}


def run(here, tier, seed, only=None):
    bindir, err = build(here)
    if bindir is None:
        return [], {"counters": {}, "samples": [], "inconclusive": ["building the cli binaries failed: " + err[-500:]]}
    work = os.path.join(here, "target", "out", "c19")
    shutil.rmtree(work, ignore_errors=True)
    os.makedirs(work, exist_ok=True)
    if only is not None:
        jobs = [(only["detail"]["kind"], only["detail"]["case"])]
    else:
        scale = 3 if tier == "quick" else 40
        jobs = [("wmc", i) for i in range(700 * scale)] + [("formula_to_bdd", i) for i in range(350 * scale)] + [("cnf_to_bdd", i) for i in range(350 * scale)]
    viols, counters, samples, distinct = [], {}, [], set()

    # thorough tier: every other case runs on the binaries as shipped (release profile:
    # no overflow checks, no debug assertions, lto, panic=abort)
    bindirs = [bindir]
    if tier == "thorough" and only is None:
        rel, err = build(here, release=True)
        if rel is None:
            return [], {"counters": {}, "samples": [], "inconclusive": ["building the release cli binaries failed: " + err[-500:]]}
        bindirs.append(rel)

    def one(job):
        kind, i = job
        bd = bindirs[i % len(bindirs)]
        return kind, KINDS[kind](bd, work, seed, i) + (bd,)

    with ThreadPoolExecutor(max_workers=os.cpu_count() or 4) as ex:
        for kind, (vs, nontrivial, info, bd) in ex.map(one, jobs):
            counters["cli_runs_" + os.path.basename(bd)] = counters.get("cli_runs_" + os.path.basename(bd), 0) + 1
            counters["evaluations"] = counters.get("evaluations", 0) + 1
            counters["cli_" + kind] = counters.get("cli_" + kind, 0) + 1
            if nontrivial:
                distinct.add(json.dumps(info, sort_keys=True))
            if info.get("clause_free_or_only_empty_clauses"):
                counters["cli_cnf_without_nonempty_clause"] = counters.get("cli_cnf_without_nonempty_clause", 0) + 1
            if info.get("order") is not None:
                counters["cli_with_configured_order"] = counters.get("cli_with_configured_order", 0) + 1
            for sub, sig, detail in vs:
                viols.append({"sub": sub, "sig": sig, "detail": detail, "seed": seed})
            if len(samples) < 3 and nontrivial and not vs:
                samples.append(info)
    counters["py_distinct_nontrivial"] = len(distinct)
    shutil.rmtree(work, ignore_errors=True)
    return viols, {"counters": counters, "samples": samples, "inconclusive": []}
