"""Independent readers of rsdd's JSON serialisations: plain node tables with
complement flags -> truth table (as a python int bitmask), vtree -> nested lists.
Written from the documented format only; shares no code with rsdd."""


def _mask(n):
    return (1 << (1 << n)) - 1


def _var_mask(n, v):
    # bit a of the result = bit v of a
    m = 0
    for a in range(1 << n):
        if (a >> v) & 1:
            m |= 1 << a
    return m


_VAR_CACHE = {}


def var_mask(n, v):
    k = (n, v)
    if k not in _VAR_CACHE:
        _VAR_CACHE[k] = _var_mask(n, v)
    return _VAR_CACHE[k]


def _dense(labels, label):
    """truth-table variable of a label: the label itself, or its position in `labels`
    (the diagram lives in a manager whose variables are spread over many labels)"""
    if labels is None:
        return label
    return labels.index(label)  # ValueError = the diagram mentions a variable it should not


def bdd_truth_table(doc, n, labels=None):
    """doc = {"nodes": [{"topvar","low","high"}...], "roots": [ptr]}; returns list of ints (one per root)"""
    full = _mask(n)
    memo = {}

    def node(i):
        if i in memo:
            return memo[i]
        nd = doc["nodes"][i]
        lo = ptr(nd["low"])
        hi = ptr(nd["high"])
        x = var_mask(n, _dense(labels, nd["topvar"]))
        r = (x & hi) | (~x & full & lo)
        memo[i] = r
        return r

    def ptr(p):
        if p == "True":
            return full
        if p == "False":
            return 0
        if isinstance(p, dict) and "Ptr" in p:
            q = p["Ptr"]
            # post-order table: a node only refers to earlier entries or itself never
            t = node(q["index"])
            return (~t & full) if q["compl"] else t
        raise ValueError("unknown BDD pointer %r" % (p,))

    return [ptr(r) for r in doc["roots"]]


def bdd_check_postorder(doc):
    """children are serialised before their parents"""
    for i, nd in enumerate(doc["nodes"]):
        for c in (nd["low"], nd["high"]):
            if isinstance(c, dict) and "Ptr" in c and c["Ptr"]["index"] >= i:
                return False
    return True


def sdd_truth_table(doc, n, labels=None):
    full = _mask(n)
    memo = {}

    def node(i):
        if i in memo:
            return memo[i]
        acc = 0
        for el in doc["nodes"][i]:
            acc |= ptr(el["prime"]) & ptr(el["sub"])
        memo[i] = acc
        return acc

    def ptr(p):
        if p == "True":
            return full
        if p == "False":
            return 0
        if isinstance(p, dict) and "Literal" in p:
            x = var_mask(n, _dense(labels, p["Literal"]["label"]))
            return x if p["Literal"]["polarity"] else (~x & full)
        if isinstance(p, dict) and "Ptr" in p:
            q = p["Ptr"]
            t = node(q["index"])
            return (~t & full) if q["compl"] else t
        raise ValueError("unknown SDD pointer %r" % (p,))

    return [ptr(r) for r in doc["roots"]]


def vtree_shape(doc):
    def rec(t):
        if "Leaf" in t:
            return t["Leaf"]
        nd = t["Node"]
        return [rec(nd["left"]), rec(nd["right"])]
    return rec(doc["root"])


def bits_to_int(s):
    m = 0
    for a, ch in enumerate(s):
        if ch == "1":
            m |= 1 << a
    return m
