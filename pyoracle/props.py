"""Per-property configuration of the driver (scales, profiles, floors, evidence rule)."""

ASSUME_COMMON = [
    "the oracle (truth tables, exact arithmetic, reference models) in /verif/harness/src is itself correct; it is written independently of rsdd and is cross-checked by its own unit tests and by agreement with rsdd on millions of cases",
    "cases are a deterministic function of (VERIF_SEED, property, regime, case id); what is not generated is not covered",
    "rsdd is built from /repo's working tree with the off-by-default cargo feature `verif` (capacity overrides, growth counters, read-only accessors); the hooks only add code",
]

PROPS = {
    "C01": {
        "profiles": {"quick": ["mon"], "thorough": ["mon", "monrel"]},
        "scale": {"quick": 1, "thorough": 40},
        "floors": {
            "quick": {"ops": 100000, "std_triples": 10000, "drift_rechecks": 10000, "exh3_blocks": 96,
                      "unique_table_grows": 100, "lru_overwrites": 1000, "op_compose": 100, "op_condition_model": 100, "op_new_var": 20,
                      "histories_over_spread_labels": 300, "histories_with_weak_hashes": 300, "unique_table_hash_clashes": 1000, "order_handles_held_across_new_var": 100},
            "thorough": {"ops": 2000000, "exh3_blocks": 192},
        },
        "rule": "Every builder call is one evaluation: the returned BddPtr is walked structurally (var, low, high, complement bit) into a truth table and compared with the operation's definition applied to the oracle tables of its arguments (compose = documented exists v.(v<=>g)&f). Regimes: exh3 = all 256 functions of 3 variables x all 6 orders x both caches: all cofactors, exists, negations, all pairs for and/or/xor/iff/compose, ite over all (f,g) and every 16th h (every h in thorough); rand = short random histories (5-80 ops, <=6 vars, random order permutation, both caches, hook capacities from tiny to 1024); long = 800-2000-op histories on <=10 variables with 2..64-slot unique tables and 1..16-slot lossy caches; default (thorough) = library-default capacities. After every 16 ops all earlier results are re-walked (history independence). A case is non-trivial when the expected function is neither constant nor a literal; distinct = distinct (operation, expected function, order, cache kind) tuples (hash set), for exh3 distinct (op, argument indices, order/cache case). Wide regime: the history's (at most 6 + run-time) variables are spread over up to 200 rsdd labels, biased to the 64/128 word boundaries, in a manager that knows every label up to the largest (order = random interleaving); the oracle keeps working on the dense variables through the harness's own label map and level map.",
        "exhaustive_note": "regime exh3 enumerates completely: all Boolean functions of 3 variables x all 6 variable orders x {AllIteTable, LruIteTable} for condition/exists/negate (all variables and values) and and/or/xor/iff/compose over all ordered pairs; ite is exhaustive over (f,g) and samples every 16th h in quick tier, every h in thorough. Everything else is sampling.",
        "assumptions": ASSUME_COMMON,
    },
    "C02": {
        "profiles": {"quick": ["mon"], "thorough": ["mon", "monrel"]},
        "scale": {"quick": 1, "thorough": 30},
        "floors": {
            "quick": {"canon_results": 50000, "canon_repeat_functions": 10000, "nodes_shape_checked": 5000,
                      "membership_lookups": 50000, "histories_with_growth": 500, "lru_overwrites": 1000,
                      "table_ops": 50000, "table_histories_with_growth": 300, "default_table_growths": 2, "big_rederivations": 200000,
                      "histories_over_spread_labels": 150, "histories_with_weak_hashes": 400, "unique_table_hash_clashes": 3000},
            "thorough": {"canon_results": 1000000, "default_table_growths": 12},
        },
        "sanitizers": ["miri_table", "miri_bdd", "asan_bdd"],
        "rule": "Per result: (a) a map oracle-truth-table -> first pointer seen: a result whose function is known must be pointer-equal (== and builder.eq) to the representative, and its negation must be the representative's negation; (b) every newly reachable node: level strictly increases along both edges under builder.order(), low != high, high edge neither complemented nor constant false; (c) table membership: get_or_insert of a structural copy of every known node returns the identical address, re-checked for all known nodes every 32 ops and at the end (i.e. after growth). Regime default_big uses the library-default capacities: 100 000-125 000 three-literal conjunctions over 80-100 variables in one builder (the real 131072-slot table grows), every function then re-derived along a second construction path and required to be the same pointer, plus shape and membership probes. Regime table drives the re-exported BackedRobinhoodTable directly with adversarial hashes (equal, adjacent, wrap-around, equal low bits) from 2..16 initial slots against a HashMap model: same key => same address, no aliasing, num_nodes == |model|, iter() yields each element once, get_by_hash finds every stored hash. evaluations = distinct-function insertions + table histories; a case is non-trivial when the function is neither constant nor a literal; distinct = distinct (function, order) pairs plus distinct table histories. Wide regime: the history's (at most 6 + run-time) variables are spread over up to 200 rsdd labels, biased to the 64/128 word boundaries, in a manager that knows every label up to the largest (order = random interleaving); the oracle keeps working on the dense variables through the harness's own label map and level map.",
        "assumptions": ASSUME_COMMON,
    },
    "C03": {
        "profiles": {"quick": ["mon"], "thorough": ["mon", "monrel"]},
        "scale": {"quick": 1, "thorough": 30},
        "floors": {
            "quick": {"ops": 60000, "drift_rechecks": 10000, "histories_compressed": 1000, "histories_uncompressed": 500,
                      "op_compose": 500, "op_exists": 500, "op_condition": 1000, "op_ite": 1000, "unique_table_grows": 500, "exh3_blocks": 96,
                      "histories_over_spread_labels": 200, "histories_with_weak_hashes": 300, "unique_table_hash_clashes": 1500},
            "thorough": {"ops": 1500000, "exh3_blocks": 192},
        },
        "rule": "Every SDD builder call (var, negate, and, or, xor, iff, ite, condition, exists, compose) is one evaluation: the returned SddPtr is evaluated structurally (OR over prime&sub, BinarySDD as ite(label,high,low), complement flags) into a truth table and compared with the operation's definition on the oracle tables of the arguments. Regimes: exh3 = all 256 functions of 3 variables under each of the 12 vtrees on 3 leaves (compression on): and/or over all ordered pairs, all cofactors, exists, negation, and xor/iff/compose/ite on every 8th second operand; allvtrees = every vtree on 4 leaves (5 shapes x 24 labellings) and on 3 leaves, each with compression on and off; rand = short histories on random right-linear / left-linear / balanced / random-shape vtrees with random leaf labelling, <=6 variables, 2..1024-slot unique tables; uncompressed = compression off, <=5 variables, <=16 ops (structural Ord on SddPtr is exponential, see DESIGN); long = 300-700-op histories. Every 16 ops all earlier results are re-evaluated. Non-trivial = expected function neither constant nor literal; distinct = distinct (operation, expected function, vtree, compression) tuples. Wide regime: the vtree's variables are spread over up to 200 rsdd labels (a label set with gaps, biased to the 64/128 word boundaries); the oracle keeps working on the dense variables through the harness's own label map.",
        "exhaustive_note": "regime exh3: all Boolean functions of 3 variables x all 12 vtrees on 3 leaves for negate/condition/exists and and/or over all ordered pairs (xor/iff/compose/ite sampled on every 8th operand); all vtree shapes x leaf labellings on 3 and 4 leaves are enumerated with one random history per compression mode; other operation histories are sampled",
        "assumptions": ASSUME_COMMON,
    },
    "C04": {
        "profiles": {"quick": ["mon"], "thorough": ["mon", "monrel"]},
        "scale": {"quick": 1, "thorough": 30},
        "floors": {
            "quick": {"wf_results": 50000, "nodes_wf_checked": 10000, "canon_repeat_functions": 20000, "histories_with_growth": 500,
                      "default_table_growths": 1, "big_rederivations": 90000, "histories_over_spread_labels": 200, "histories_with_weak_hashes": 300, "unique_table_hash_clashes": 2000},
            "thorough": {"wf_results": 1000000},
        },
        "sanitizers": ["miri_sdd"],
        "rule": "For every decision node newly reachable from any result of the compressing builder the oracle computes the truth table of each prime and sub and asserts: primes non-false, pairwise disjoint, union true; every variable a prime depends on lies under the left child of the node's vtree position and every variable a sub depends on under the right child; subs pairwise distinct; no single-element node and no {(p,T),(!p,F)} node; and canonicity through a map truth table -> pointer over results AND every reachable node in both polarities (same function => same pointer, builder.eq agrees). Unique tables start at 2..64 slots so both SDD tables grow repeatedly; regime default_big uses the library-default capacity and 96 100 root decision nodes a_i & b_j over a 40-variable vtree (the real 131072-slot table grows), each re-derived by absorption and required to be the same pointer. evaluations = results with a not-yet-seen function; non-trivial = neither constant nor literal; distinct = distinct (function, vtree) pairs. The library's own is_canonical() is recorded as a cross-check only. Wide regime: the vtree's variables are spread over up to 200 rsdd labels (a label set with gaps, biased to the 64/128 word boundaries); the oracle keeps working on the dense variables through the harness's own label map.",
        "exhaustive_note": "all 120 vtrees on 4 leaves are enumerated (one 70-op history each); histories are sampled",
        "assumptions": ASSUME_COMMON,
    },
    "C05": {
        "profiles": {"quick": ["mon"], "thorough": ["mon", "monrel"]},
        "scale": {"quick": 1, "thorough": 40},
        "floors": {
            "quick": {"bdd_compile_cnf": 1000, "bdd_compile_with_assignments": 3000, "bdd_compile_plan": 800, "sdd_compile_cnf": 700,
                      "sdd_compile_plan": 600, "bdd_compile_expr": 800, "sdd_compile_expr": 800, "bdd_compile_random_plan": 500, "wide_inputs": 200, "bdd_compilations_in_a_used_builder": 500, "sdd_compilations_in_a_used_builder": 500},
            "thorough": {"bdd_compile_cnf": 40000},
        },
        "rule": "One evaluation = one compilation compared with the harness's own evaluation of the input on all 2^n assignments (n <= 10): BDD compile_cnf under a random order permutation and either cache; compile_cnf_with_assignments(c,m) for random partial assignments m of every size (must have the restricted table AND be pointer-equal to condition_model(compile_cnf(c),m)); compile_plan(BottomUpPlan::from_dtree(DTree::from_cnf(c, elim))) for elim in {linear, min-fill, FORCE, random} (right table AND pointer-equal to compile_cnf); SDD compile_cnf / compile_plan under right-linear, left-linear, balanced, random and dtree-derived vtrees; compile_logical_expr for random expression trees over all 7 constructors (depth <= 8) on BDD and SDD; random plans with constants. CNFs include the empty formula, empty clauses, units, repeated and complementary literals, unused indices, up to 200 clauses. Non-trivial = the input's function is neither constant nor a literal; distinct = distinct (function, route/configuration) pairs. Cnf::eval is used only as a cross-check of the oracle (disagreements are counted in evidence). Wide regime: the input's (at most 10) variables are spread over up to 200 rsdd labels, biased to the 64/128 word boundaries, most indices unused; orders, vtrees, partial models and weight tables cover the whole label range, while the oracle keeps working on the dense variables through the harness's own label map. Reuse regime: one BDD builder and one SDD builder each compile a sequence of 4-6 inputs (CNFs sharing clauses, expressions, random plans, the first CNF again); every result is checked, every earlier result is re-walked after each later compilation, and the first input compiled again must be the same diagram.",
        "assumptions": ASSUME_COMMON + ["S9: FORCE is not applied to CNFs with an empty clause and no dtree is built for the empty formula (outside the listed domains)"],
    },
    "C06": {
        "profiles": {"quick": ["mon"], "thorough": ["mon", "monrel"]},
        "sanitizers": ["miri_topdown"],
        "scale": {"quick": 1, "thorough": 40},
        "floors": {
            "quick": {"compilations": 5000, "conditionings": 50000, "compilations_in_a_used_builder": 1200, "builder_literals": 10000, "compilations_over_spread_labels": 200, "witness_compilations": 5,
                      "compilations_with_truncated_hash": 600, "component_cache_hash_conflicts": 400},
            "thorough": {"compilations": 200000},
        },
        "rule": "One evaluation = one top-down compilation (StandardDecisionNNFBuilder or SemanticDecisionNNFBuilder over the 64-bit prime) of a generated CNF under a decision order: the result is walked structurally into a truth table and compared with the harness's evaluation of the clause list; is_false() must coincide with unsatisfiability; no node's variable may re-occur below it (no path decides a variable twice); condition(r,v,b) and condition(!r,v,b) are compared with the cofactor for every variable and value. Regime allorders: every permutation of the variables for CNFs over <= 4 variables; rand: random permutations, <= 9 variables, both stores on the same input; reuse: ONE builder compiles 3-5 related CNFs over the same variables one after the other (the first one again at the end), every result checked as above and every earlier result re-walked after each later compilation; TopDownBuilder::var literals are checked too. CNFs are biased to unit clauses, implication chains with a unit at one end, UNSAT cores found only after branching, and the same clause pattern on two disjoint variable blocks (component-cache hits); empty formula, empty clauses, tautological clauses and duplicate literals occur. Non-trivial = function neither constant nor literal; distinct = distinct (function, order, store) triples. Wide regime: the input's (at most 10) variables are spread over up to 200 rsdd labels, biased to the 64/128 word boundaries, most indices unused; orders, vtrees, partial models and weight tables cover the whole label range, while the oracle keeps working on the dense variables through the harness's own label map. Regime hash_witness compiles the recorded 2 308-variable collision witness of F12 with both node stores and compares the diagram with the CNF on the assignment where CNF|x=T and CNF|x=F differ (one path walk, no truth table), and the 2 176-clause witness of F17 (a collision constructed against the repaired hash modulo 2^127-1) with the whole truth table. Regime weak_hash: the residual hash is truncated to 0, 1, 2, 3, 5 or 8 bits by hook H5 while branching-heavy CNFs (5-10 variables, clause widths 2-4) are compiled with both stores; the number of component-cache lookups that met an entry with the same hash and another residual formula is counted (floor).",
        "exhaustive_note": "for CNFs over <= 4 variables every permutation of the variables is used as decision order; the CNFs themselves are sampled",
        "assumptions": ASSUME_COMMON + ["semantic-hash store: a 64-bit hash collision would be a false alarm with probability ~2^-50 per run; none has been observed", "regime weak_hash runs with the verif hook that truncates SATSolver::cur_hash (the truncation is applied where the hash is read, nothing else changes)"],
    },
    "C09": {
        "profiles": {"quick": ["mon"], "thorough": ["mon", "monrel"]},
        "scale": {"quick": 1, "thorough": 40},
        "floors": {
            "quick": {"solvers": 1500, "decides": 50000, "pops": 15000, "states_checked": 30000, "decides_with_propagation": 3000,
                      "hash_repeats": 1000, "states_sat": 500, "decide_unsat": 1000, "solvers_over_spread_labels": 400, "witness_states": 6, "residual_checks": 30000, "residual_repeats": 1000},
            "thorough": {"decides": 2000000},
        },
        "rule": "One evaluation = one solver driven through a random decide/pop history (30-150 steps; long regime 300-600) over a generated CNF with <= 10 variables (clause widths 1-5, duplicate literals, tautological clauses, occasionally an empty clause or the empty formula). After construction and after every decide the observable state (model through the read-only hook, is_set, difference_iter, is_sat, cur_hash) is checked: (1) every assigned value is entailed -- brute force over all models of CNF and decisions; (2) UNSAT / None only if no model extends the decisions, and a refused decision leaves the state unchanged; (3) no clause falsified or with exactly one unassigned literal and no true literal, and the model contains the closure computed by an independent naive propagator; (4) the state observed after pop equals field by field the state recorded before the matching decide (pops unwind 1..k levels); (5) is_sat iff every non-tautological clause has a true literal; (6) per solver a map hash -> residual formula: a second, different residual under the same hash is a violation (asserted only while the product of all occurrence primes is < 2^128); (7) per solver a two-way map between cur_residual() (the set of removed literal occurrences, compared by the component cache since dd48a81) and the residual formula as a family indexed by clause position: equal sets with different formulas, or one formula under two sets, is a violation; cur_residual() is part of the state compared in (4). Decisions re-decide assigned variables and decide against implied values. Non-trivial = at least one decision propagated a further literal; distinct = distinct (CNF) inputs. Wide regime: the input's (at most 10) variables are spread over up to 200 rsdd labels, biased to the 64/128 word boundaries, most indices unused; orders, vtrees, partial models and weight tables cover the whole label range, while the oracle keeps working on the dense variables through the harness's own label map. Regime hash_witness replays the two recorded collision witnesses of the pre-fix hash (F12: 770- and 2 308-variable CNFs whose literal-prime products agree modulo 2^128): the two reachable states must not have the same hash; witness 3 (F17, constructed against the repaired hash modulo 2^127-1) genuinely has two states with one hash and is listed in known_findings.json (KNOWN-FINDING line), while their cur_residual() sets must differ.",
        "assumptions": ASSUME_COMMON + ["S6: decide() returning UNSAT pushes nothing, so the harness pops only after SAT/Unknown and never pops the two base states", "the residual hash is 127 bits wide: equal hashes of different residual formulas remain possible in principle; after fix b9cf6e5 constructing one means finding a multiplicative relation between small primes modulo 2^127-1, which no workload here attempts (the two witnesses of the pre-fix hash are replayed as fixed regressions)"],
    },
    "C07": {
        "profiles": {"quick": ["mon"], "thorough": ["mon", "monrel"]},
        "scale": {"quick": 1, "thorough": 40},
        "floors": {
            "quick": {"counts_real": 4000, "counts_finite_field": 12000, "counts_boolean": 4000, "counts_expected_utility": 4000,
                      "counts_complex": 4000, "counts_rational": 4000, "counts_polynomial": 4000, "evaluate_calls": 50000},
            "thorough": {"counts_real": 150000},
        },
        "rule": "One evaluation = one unsmoothed_wmc call on a diagram compared for exact equality with the oracle: for weights with low+high = one (all 9 shipped semiring instances: real, finite field over U32_TINY / U32_SMALL / U64_LARGEST, Boolean, expected utility, complex, rational, polynomial) the sum over ALL models of the product of literal weights, computed from the truth table in exact arithmetic (dyadic rationals, overflow-free modular arithmetic, naturals, coefficient vectors mod x^32); for BDDs additionally arbitrary non-normalised weights against the unsmoothed count U (sum over the variables each sub-function depends on, S2). Both the diagram and its negation are counted. Diagrams: BDDs under random orders and their smooth()ed versions (nodes with identical children; any weights, counted three times per semiring type), SDDs under random vtrees (compression on/off), top-down decision-DNNFs of random CNFs from either node store; functions are parities, ite(x,g,!g) (both polarities of one node under one parent), thresholds and random functions on <= 7 variables. evaluate() is compared with the truth table on every assignment. Float-backed weights are dyadic and bounded so that every intermediate value is exactly representable (otherwise the case is skipped and counted). Non-trivial = function neither constant nor literal; distinct = distinct (diagram, weights, sub-check) triples.",
        "assumptions": ASSUME_COMMON,
    },
    "C08": {
        "profiles": {"quick": ["mon"], "thorough": ["mon", "monrel"]},
        "scale": {"quick": 1, "thorough": 40},
        "floors": {
            "quick": {"smooth_calls": 5000, "inputs_skipping_levels": 2000, "complemented_roots": 1500, "counts_real": 4000,
                      "counts_finite_field": 4000, "model_counts": 4000, "exh3_orders": 6,
                      "smooth_calls_after_earlier_calls_in_the_same_builder": 4000},
            "thorough": {"smooth_calls": 100000},
        },
        "rule": "One evaluation = one smooth(f, k) call (f and its negation) checked four ways: the result's truth table (structural walk) equals f's; every root-to-terminal path tests var_at_level(0..k-1) exactly once and in order (structural path walk); unsmoothed_wmc under random NON-normalised small-integer weights in the real semiring and random residues in the 64-bit field equals the brute-force weighted sum over models computed from the truth table; under unit weights it equals the number of models. Regime exh3 enumerates all 256 functions of 3 variables under all 6 orders; rand draws functions on <= 8 variables (parity, ite(x,g,!g), threshold, random), forces them to skip levels at the top, in the middle and at the bottom, and also smooths over only the first k < n levels, mostly with f independent of the later ones (S9: then the counts are checked too), sometimes with f mentioning deeper levels (then only function preservation and the per-path invariant for the first k levels are asserted). Regime multi issues 2-10 smooth calls in ONE builder on functions that share sub-diagrams, each over a different number of levels (and the same function again over more levels), so that a call cannot depend on what earlier calls left behind. Non-trivial = the function is not a constant/literal or it skips at least one level; distinct = distinct (function, order, k).",
        "exhaustive_note": "all Boolean functions of 3 variables x all 6 orders x {f, not f} are enumerated; larger inputs are sampled",
        "assumptions": ASSUME_COMMON + ["S9: smooth(f,k) is only called with f over the first k levels of the order"],
    },
    "C13": {
        "profiles": {"quick": ["mon", "monrel"], "thorough": ["mon", "monrel"]},
        "scale": {"quick": 1, "thorough": 30},
        "floors": {
            "quick": {"triples": 100000, "pairs": 10000, "lattice_pairs": 500, "field_sub_pairs": 2000, "domains_exhaustive": 1,
                      "bitgrid_pairs": 1000000},
            "thorough": {"triples": 500000},
        },
        "rule": "One evaluation = one triple (a,b,c) of elements of one shipped weight type on which the laws are asserted with the type's own == : + associative/commutative, * associative/commutative, identities, annihilating zero, left/right distributivity; a+b and a*b are additionally compared with independent reference arithmetic (overflow-free double-and-add modular arithmetic, exact dyadic rationals, naturals, coefficient vectors mod x^32). Declared rings (real, expected utility, finite fields): (a+b)-b == a, and finite-field a-b == (a-b) mod P. Lattices (real, expected utility): join/meet idempotent, commutative, associative; whenever partial_cmp relates two elements join and choose return the larger and meet the smaller; the declared EU order is compared with the componentwise definition. Domains: Boolean exhaustive; real 9 dyadic values incl. negatives (all 729 triples); complex and expected utility 5x5 grids (all 15625 triples each); rationals 0..12 (all 2197 triples); polynomials of lengths {0,1,2,16,31,32,random} with small integer coefficients (random); finite fields for ALL SEVEN exported primes over {0,1,2,P/2-1,P/2,P/2+1,P-2,P-1,2^32,2^64-1,2^64+1 mod P, 3 random} (all 2744 triples per prime). Run in both build profiles (overflow checks on: a panic is a violation; off: a wrong value is). Every triple is non-trivial and distinct by construction; distinct = distinct (type, a, b, c). Bit-length grid: for each of the seven exported primes, every pair of values around each power of two up to the prime's bit length (2^i - 1, 2^i, 2^i + 1, a random value of that length, reduced modulo P): product, sum and difference against wide reference arithmetic, in both build profiles.",
        "exhaustive_note": "Boolean: complete. Real/complex/expected-utility/rational: all triples over the stated finite grids. Finite fields: all triples over the stated boundary sets for each of the seven exported primes. Polynomials: sampled.",
        "assumptions": ASSUME_COMMON + ["S10: FiniteField::negate is 1-v (hash complement) and is not tested as an additive inverse", "S11: rational values are naturals reachable from one/zero"],
    },
    "C14": {
        "profiles": {"quick": ["mon"], "thorough": ["mon", "monrel"]},
        "scale": {"quick": 1, "thorough": 30},
        "floors": {
            "quick": {"orders_checked": 5000, "dtrees": 3000, "dtree_nodes": 20000, "vtrees_from_dtree": 3000, "managers": 400,
                      "lca_pairs": 50000, "shapes_enumerated": 65, "large_vtrees": 10, "library_constructed_vtrees": 300, "managers_over_label_sets_with_gaps": 200, "order_inputs_with_an_empty_clause": 150, "force_on_the_clause_free_formula": 1},
            "thorough": {"dtrees": 100000},
        },
        "rule": "One evaluation = one derived object inspected structurally and compared with its definition recomputed from the CNF: (orders) linear, min-fill, FORCE, explicit and new_last-extended orders are permutations of 0..n with get/var_at_level mutually inverse, in_order_iter/lt/lte consistent; (dtrees) for each CNF and elimination order (every permutation for <= 4 variables; linear/min-fill/FORCE/random up to 12) the leaves are exactly the CNF's clauses, vars(node) = vars(l) | vars(r), internal cutsets = (vars(l)&vars(r)) minus ancestor cutsets and leaf cutsets = clause variables minus ancestor cutsets; (vtree from dtree) every CNF variable exactly once; (vtree manager) for every tree shape on <= 6 leaves (random labelling) and random shapes up to 12 leaves: var_index = in-order index, vtree(idx) structurally equal to the in-order node, lca for ALL node pairs against a range-based reference, prime/sub relation against left/right position (indices, variables, pointers), num_vars = number of leaves on dense label sets (S12). CNFs include unit and duplicate clauses, tautological clauses, disconnected components and unused variable indices. Every case is non-trivial; distinct = distinct inputs.",
        "exhaustive_note": "all vtree shapes on 1..6 leaves (65 shapes) and, per sampled CNF over <= 4 variables, all elimination orders are enumerated; CNFs and larger trees are sampled",
        "assumptions": ASSUME_COMMON + ["S9: no empty clause / empty formula for DTree::from_cnf, FORCE and min-fill (outside the listed domain)", "S12: num_vars is only compared on label sets that are a permutation of 0..k"],
    },
    "C15": {
        "profiles": {"quick": ["mon"], "thorough": ["mon", "monrel"]},
        "scale": {"quick": 1, "thorough": 30},
        "floors": {
            "quick": {"cnfs": 1400, "evals": 10000, "conditions": 4000, "wmcs": 2800, "is_sat_partial": 8000, "model_steps": 30000,
                      "literals": 50000, "hashes": 10000, "residual_repeats": 2000, "hasher_histories": 700, "edge_cases": 8, "models_over_more_than_64_variables": 250, "cnfs_from_string": 150},
            "thorough": {"cnfs": 40000},
        },
        "rule": "One evaluation = one generated object checked against its set-theoretic definition: (cnf) Cnf::new keeps each clause as the given literal set and num_vars = max label + 1; eval on every assignment, condition(lit) for every literal (compared with the cofactor of the truth table), brute-force wmc in the real and 64-bit-field semirings against the exact sum over models (incl. the empty formula and formulas with empty clauses, regime edge), is_sat_partial for random partial models (implies 'every extension satisfies'; equivalence on CNFs without tautological clauses, S7); (models) PartialModel and VarSet driven through random set/unset/insert/remove histories against HashMap/HashSet models, all accessors, iterators, constructors, set operations and difference() against an earlier snapshot (which may disagree on variables) compared after every step; (literals) label/polarity round trip for labels up to 2^63-1; (hasher) CnfHasher driven through random push/decide/pop histories, hash(m) for random models m extending the decisions that falsify no clause: a map residual-family -> hash and a map hash -> residual-family must both stay functional (the second only while the product of all occurrence primes is < 2^128, S5). Non-trivial = CNF neither constant nor literal (cnf regime) / every history (others); distinct = distinct inputs.",
        "assumptions": ASSUME_COMMON + ["S5: residuals are compared as families indexed by clause position", "S7: is_sat_partial is syntactic"],
    },
    "C10": {
        "profiles": {"quick": ["mon"], "thorough": ["mon", "monrel"]},
        "scale": {"quick": 1, "thorough": 30},
        "floors": {
            "quick": {"queries": 30000, "repeated_queries": 300, "fresh_copy_queries": 8000},
            "thorough": {"queries": 800000},
        },
        "sanitizers": ["miri_queries"],
        "rule": "One evaluation = one pool of diagrams sharing nodes (built by a random operation history in one long-lived builder) on which 20-70 queries of different scratch types are interleaved: unsmoothed_wmc in 8 semiring instances, evaluate, count_nodes, semantic_hash over 3 primes, cached_semantic_hash (one prime per builder, S3), and for BDDs marginal_map, meu, bb::<Real>, bb::<ExpectedUtility>, user bdd_fold with usize and i64, Fold::mut_fold, smooth, condition, condition_model, exists; operands are chosen as f, !f, recent results and the previous operand again. Checks: (a) a repeated (diagram, query) returns the first answer (also asked twice in a row); (b) every 3rd query (every query in thorough) is asked once on a FRESH builder that replays the construction history and must give the identical answer (floats compared bit-exactly through their shortest round-trip print, diagrams through their isomorphism class); (c) after EVERY public call a scan over all nodes reachable from all pool roots asserts is_scratch_cleared(). BDD pools (both caches; they also contain smooth()ed members, and smooth is queried over a varying number of levels), compressed SDD pools, and top-down decision-DNNF pools built by compiling two CNFs in ONE builder of either node store (standard, semantic-hash 64-bit). Run in the `mon` profile so rsdd's own debug assertions on scratch state are live. Every pool is non-trivial; distinct = distinct (history, queries) inputs.",
        "assumptions": ASSUME_COMMON + ["S3: a builder's nodes are only ever cached-hashed with one prime and one weight map"],
    },
    "C11": {
        "profiles": {"quick": ["mon"], "thorough": ["mon", "monrel"]},
        "sanitizers": ["miri_semantic", "asan_semantic"],
        "scale": {"quick": 1, "thorough": 30},
        "floors": {
            "quick": {"hash_checks": 20000, "bdd_representations": 2000, "sdd_representations": 1300, "ddnnf_representations": 300,
                      "semantic_sdd_ops": 8000, "eq_on_equal_functions": 50000, "semantic_ddnnf_compilations": 450,
                      "semantic_ddnnf_conditionings": 2000, "semantic_sdd_compile_cnf": 500,
                      "untrimmed_nodes_denoting_literal_or_constant": 100, "builder_hash_accessor_checks": 500, "semantic_builders_over_spread_labels": 100, "semantic_big_builders": 2, "semantic_big_minterms_checked": 500000, "moduli_factored": 1, "zero_divisor_conjunctions_checked": 1, "collision_witnesses_checked": 2},
            "thorough": {"hash_checks": 600000},
        },
        "rule": "One evaluation = one hash or one semantic-builder operation. (hash) For a function f on <= 7 variables (parity, ite(x,g,!g), threshold, random, CNF-derived) and each prime in {U32_TINY, U32_SMALL, U64_LARGEST} the defining sum over the models of f of the product of create_semantic_hash_map weights is computed from the truth table with the harness's own modular arithmetic and compared with semantic_hash of BDDs under 3 random orders, SDDs under 2 random vtrees and top-down decision-DNNFs under 2 random orders (so all representations agree with each other); the negation must hash to 1 - h; cached_semantic_hash (asked twice, and through a second construction history) must equal it (one prime per builder, S3); hand-built BinarySDD / BddNode values made with the public constructors (also with complemented high edges, which no builder stores) must hash to the defining sum of the function they denote; the hash weights must sum to one. (semantic builders) SemanticSddBuilder<P> is driven through random and/or/negate/condition/exists histories (with templates that leave an untrimmed node denoting a literal and that reach one function along two routes) and compile_cnf, SemanticDecisionNNFBuilder<P> through compile_cnf_topdown and condition: for every prime eq() must be true on every pair of pool members (both polarities, both argument orders) whose oracle truth tables are equal; over U64_LARGEST every returned diagram must have the right truth table, under 32-bit primes a wrong table is a hash collision and only recorded (S4). Non-trivial = function neither constant nor literal; distinct = distinct (function, representation, sub-check) / (function, op, vtree). The semantic SDD builder's own accessors are checked too (cached_semantic_hash == recomputed == defining sum under the builder's map()), and a wide regime runs the semantic SDD histories over vtrees whose variables are spread over up to 200 labels. Scale regime semantic_big: one hash-identified builder (d-DNNF store, and SDD builder on a right-linear vtree) is filled with every suffix cube over 18 variables (524 286 nodes; 20 variables in the thorough tier) through get_or_insert / and, and each of the 2^18 full cubes is then evaluated structurally on its own assignment and two neighbours: a merge of two different functions (a collision in whatever part of the 64-bit hash the node table compares) shows as a cube that does not denote its minterm. Regime zero_divisors factors the 64-bit modulus (Miller-Rabin, Pollard rho); if it is composite with a balanced split it constructs, by meet in the middle over the minterm weights of the builder's own map, two 6-variable functions whose hashes multiply to zero, builds them with and/or and checks and(a, b) against the truth table (finding F14); with a prime modulus it checks the conjunction of two fixed functions.",
        "assumptions": ASSUME_COMMON + ["S3/S4: one prime and weight map per builder; collisions under 32-bit primes are recorded, not violations; ite/iff/xor/compose of SemanticSddBuilder are todo!() and excluded as in the property text"],
    },
    "C12": {
        "profiles": {"quick": ["mon"], "thorough": ["mon", "monrel"]},
        "scale": {"quick": 1, "thorough": 40},
        "floors": {
            "quick": {"marginal_map": 1400, "bb_real": 1400, "meu": 1400, "bb_eu": 1400, "queries_with_ignored_variable": 200,
                      "cases_with_utilities": 500, "cases_with_tiny_utilities": 300, "cases_over_spread_labels": 300, "cases_with_tied_optima": 1000, "queries_after_other_queries_in_the_same_builder": 600, "cases_with_8_to_10_variables": 100},
            "thorough": {"marginal_map": 50000},
        },
        "rule": "One evaluation = one optimisation query on a BDD (random order, <= 7 variables; parity / ite(x,g,!g) / threshold / random functions) compared with exhaustive maximisation by the oracle. marginal_map and bb::<RealSemiring>: query set = empty, all, or a random subset in random order (incl. variables the function ignores); every weight in [0,1] (dyadic, sixteenths), non-query variables normalised, query weights arbitrary with frequent near-ties; expected optimum = max over query assignments a of prod w(a) * U(f|a), U the exact unsmoothed count (S2). meu and bb::<ExpectedUtility>: decision variables carry (1,0),(1,0), chance variables (p,0),(1-p,0), utility-bearing variables (1,u_lo),(1,u_hi) with non-negative dyadic utilities placed below every decision variable in the order; utilities are additionally scaled by 2^-s, s in {0,10,40,70,200} (exact) so that tiny magnitudes occur; expected optimum = max over decision assignments of the utility component of U(f|a). Checks: returned value equals the optimum EXACTLY (S13), the returned partial model assigns every query/decision variable, and the oracle value of that model equals the optimum (ties free). Non-trivial = function neither constant nor literal and a non-empty query; distinct = distinct (function, order, query, weights, query kind). Wide regime: the input's (at most 10) variables are spread over up to 200 rsdd labels, biased to the 64/128 word boundaries, most indices unused; orders, vtrees, partial models and weight tables cover the whole label range, while the oracle keeps working on the dense variables through the harness's own label map. Half of the cases first ask the same kinds of query about another function in the same builder (sharing nodes) and about the negation, under swapped weights, before the checked queries; a quarter use very coarse weights (0, 1/2, 1; utilities 0/1) so that optima and sibling bounds tie exactly (floor: tied optima observed).",
        "assumptions": ASSUME_COMMON + ["S2: the weighted count is the unsmoothed count U; weights are in the domain stated by the property"],
    },
    "C16": {
        "profiles": {"quick": ["mon"], "thorough": ["mon", "monrel"]},
        "scale": {"quick": 1, "thorough": 30},
        "floors": {
            "quick": {"lru_gets": 300000, "lru_hits": 10000, "lru_overwrites": 100000, "lru_histories_with_growth": 300,
                      "paired_results": 30000, "paired_histories_with_overwrites": 500, "paired_histories_with_cache_growth": 300,
                      "cold_replays": 3000, "ite_table_gets": 40000, "ite_table_lru_hits": 15000, "ite_table_lru_overwrites": 30000,
                      "ite_table_lru_grows": 300, "lru_default_size_grows": 2, "paired_histories_with_weak_triple_hashes": 400},
            "thorough": {"lru_gets": 8000000},
        },
        "rule": "Four monitors. (a') the two ITE-cache adapters LruIteTable / AllIteTable driven directly through the public IteTable trait (insert / get / hash) on standard triples over a pool of real BDD pointers, as IteChoice, IteComplChoice and IteConst, with the adapter's own hash or caller-supplied colliding hashes (one hash per triple), initial capacity 2^0..2^4: get must return None (lossy) or the value most recently inserted for exactly that triple with the complement flag re-applied; AllIteTable must return exactly the model's value. (a) util::lru::Lru<K,V> driven directly: 50-2500 random insert/get operations per cache on 2-200 keys, initial capacity 2^0..2^6 slots, hashes a function of the key chosen adversarially (spread, 5 buckets, equal low bits that separate only after growth, collisions up to a capacity); every inserted value is fresh, so a stale or foreign value is distinguishable; model = HashMap key -> last value; get must return None or exactly the model's value. (b) The same generated BDD operation history is executed on RobddBuilder<AllIteTable> and on RobddBuilder<LruIteTable> whose cache starts at 2^0..2^4 slots (hook) and whose unique table starts at 2..64 slots; after every operation the two results must have the same canonical serialisation (isomorphism class incl. complement marks). (c) SDD: every 3rd operation of a long-lived CompressionSddBuilder (warm apply and ite caches) is redone in a fresh builder on operands rebuilt from their truth tables by Shannon expansion, and the isomorphism classes must agree. Floors require overwrites, cache growth and cache hits to have been observed. evaluations = caches / paired histories / SDD histories; all non-trivial; distinct = distinct inputs.",
        "assumptions": ASSUME_COMMON + ["the hash handed to the lossy cache is a function of the key, as in both ITE adapters"],
    },
    "C17": {
        "profiles": {"quick": ["mon"], "thorough": ["mon"]},
        "scale": {"quick": 1, "thorough": 40},
        "py_leg": "c17_reader",
        "floors": {
            "quick": {"dimacs_parsed": 800, "dimacs_roundtrips": 800, "sexprs_parsed": 850, "bdds_serialised": 2500, "sdds_serialised": 2500,
                      "vtrees_serialised": 190, "py_read_bdd": 2500, "py_read_sdd": 2500, "py_read_vtree": 190, "py_complemented_roots": 500, "diagrams_over_spread_labels": 100, "dimacs_texts_with_large_variable_numbers": 150, "library_evaluator_tables": 1500, "dimacs_degenerate_texts": 100, "dimacs_texts_without_clauses": 20, "dimacs_texts_with_zero_variables": 10},
            "thorough": {"py_read_bdd": 100000},
        },
        "rule": "One evaluation = one text parsed or one object serialised. DIMACS: the harness prints its own clause list (1-based, with comments, irregular spacing, duplicate and complementary literals), Cnf::from_dimacs must have the models of the text with variable i -> label i-1 (evaluated structurally and through eval), LogicalExpr::from_dimacs with variable i -> label i (S8, evaluated by the harness's own AST evaluator); to_dimacs + header + from_dimacs must give the same clause sets. S-expressions: random expression trees over all 7 constructors with names chosen so that bytewise-lexicographic order differs from first-occurrence and numeric order; variable_mapping must be the lexicographic numbering of the occurring names and the parsed expression must have the text's models under it. Serialisers: BDDSerializer / SDDSerializer / VTreeSerializer output (serde_json) for constants, single literals, results of random operation histories and their negations (shared nodes, complemented roots and edges) is written to a side file with the oracle truth table and read by an independent PYTHON reader (node table + complement flags -> truth table; vtree -> nested lists) which must reproduce the table / tree. Non-trivial = function neither constant nor literal; distinct = distinct texts / JSON strings. A quarter of the DIMACS texts use large non-contiguous variable numbers (up to 200) and a quarter of the serialised diagrams live in managers / vtrees whose variables are spread over up to 200 labels (the Python reader gets the label of each variable); the parsed formulas are also evaluated with the library's own LogicalExpr::eval on every assignment.",
        "assumptions": ASSUME_COMMON + ["s-expressions without constants (todo!() in rsdd, excluded by the property)", "DIMACS texts without empty clauses (third-party parser behaviour is not rsdd's)"],
    },
    "C19": {
        "profiles": {"quick": [], "thorough": []},
        "py_leg": "c19_cli",
        "floors": {
            "quick": {"cli_wmc": 2100, "cli_formula_to_bdd": 1050, "cli_cnf_to_bdd": 1050, "cli_with_configured_order": 1200, "cli_cnf_without_nonempty_clause": 15},
            "thorough": {"cli_wmc": 28000},
        },
        "rule": "One evaluation = one invocation of a binary built from /repo with --features cli (cargo build into /verif/target/repo) on generated input files. weighted_model_count (single-count mode, no partials): random s-expression over <= 7 named variables (names chosen so that lexicographic order differs from first-occurrence and numeric order), a weights file with dyadic weights (normalised or arbitrary eighths in [0,1.5]) that sometimes omits a formula variable (documented default 0/0) and sometimes names extra variables, and in 60% of the cases a config with a random order over all variables; expected = number of models and exact weighted sum (fractions.Fraction) over formula + weight-file variables; the printed float is converted exactly and must equal the sum. bottomup_formula_to_bdd (linear or manual order) and bottomup_cnf_to_bdd (--order auto_minfill / auto_force; DIMACS written one clause per line, several clauses per line, or wrapped over lines with the terminating 0 alone on a line; with auto_minfill occasionally an empty clause): the emitted JSON is read by the independent Python node-table reader and must denote the input formula (lexicographic numbering) / CNF (0-based). A non-zero exit status on an in-domain input is a violation. The quick tier runs the dev-profile binaries; the thorough tier alternates with the release-profile binaries (as shipped: no overflow checks, lto, panic=abort). Non-trivial = the formula is neither valid nor unsatisfiable; distinct = distinct inputs.",
        "assumptions": ASSUME_COMMON + ["the configured order lists every variable (formula and weight-file) exactly once; CNFs have at least one clause and no empty clause (S9)"],
    },
    "C18": {
        "isolated": {"handle_reuse": 12},
        "profiles": {"quick": ["mon"], "thorough": ["mon", "monrel"]},
        "scale": {"quick": 1, "thorough": 30},
        "floors": {
            "quick": {"c_calls": 5000, "c_eq_pairs": 100000, "c_wmc": 15000, "c_model_counts": 5000, "c_weight_roundtrips": 2000,
                      "c_frontend_calls": 2500, "c_compose": 300, "c_new_var": 30, "c_ite": 1000,
                      "c_weights_overwritten_between_counts": 400, "isolated_c_sequences": 12, "c_calls_on_a_reused_cnf_handle": 40, "null_array_calls": 3},
            "thorough": {"c_calls": 150000},
        },
        "sanitizers": ["miri_ffi", "asan_ffi", "valgrind_ffi"],
        "rule": "One evaluation = one call of an exported extern \"C\" symbol (linked from the crate built with the ffi feature and declared in the harness exactly as a C client would), mirrored by the corresponding native call on a native builder. Regime bdd_api: random call sequences on one manager (mk_bdd_manager_default_order or robdd_builder_all_table over var_order_new with a random order): bdd_var, bdd_new_var / bdd_new_label, bdd_and, bdd_or, bdd_ite (also as xor/iff), bdd_negate, bdd_compose, bdd_true/false; after every call the diagram is observed ONLY through bdd_is_true/false, bdd_topvar, bdd_low, bdd_high and must denote the oracle's truth table and have exactly the native diagram's expanded structure; at the end: bdd_eq over all pool pairs == native eq == function equality; bdd_is_const, bdd_count_nodes, bdd_to_json (== native serialiser string), print_bdd, scratch accessors; robdd_model_count == number of models over the manager's current variables; bdd_wmc / bdd_wmc_complex / bdd_wmc_poly (weights marshalled through wmc_param_*_set_weight, read back through *_var_weight, weight_*_lo/hi, polynomial_len, polynomial_get_coeffs) bit-identical to the native counts and exactly equal to the oracle's unsmoothed count; the counts run in 1-3 rounds, and between rounds a third of the weights of the SAME C weight tables are overwritten through the C setters (count, set_weight, count again). Regime frontends: literal_new, cnf_new (also on clause lists containing empty clauses), cnf_from_dimacs, cnf_min_fill_order, var_order_linear/new, robdd_builder_compile_cnf, dtree_from_cnf, vtree_from_dtree, sdd_builder_new/compile_cnf, sdd_wmc, ddnnf_builder_new/compile_cnf_topdown agree with their native counterparts and the CNF's truth table. Non-trivial = function neither constant nor literal; distinct = distinct (function, operation, order).",
        "assumptions": ASSUME_COMMON + ["the harness's extern declarations mirror the C prototypes (repr(C) structs re-declared with the same layout)", "the API has no free function for diagram handles: leak checking is off for this workload (S15)"],
    },
}


# ---------------------------------------------------------------------------
# Quick-tier volume.  The workloads are cheap, so the quick tier runs a multiple of
# the base case counts (still well under a minute per check); the floors of the
# scaled counters are raised by half that factor.
QUICK_SCALE = {"C01": 8, "C02": 24, "C03": 30, "C04": 24, "C05": 15, "C06": 10, "C07": 15, "C08": 30, "C09": 30, "C10": 10,
               "C11": 10, "C12": 30, "C13": 1, "C14": 15, "C15": 15, "C16": 10, "C17": 15, "C18": 24}
# thorough tier: sized so that each property takes roughly 1-5 minutes on 16 cores
THOROUGH_SCALE = {"C01": 80, "C02": 64, "C03": 800, "C04": 200, "C05": 150, "C06": 100, "C07": 80, "C08": 300, "C09": 120,
                  "C10": 40, "C11": 120, "C12": 800, "C13": 300, "C14": 150, "C15": 80, "C16": 60, "C17": 300, "C18": 64}
UNSCALED = {"isolated_c_sequences", "c_calls_on_a_reused_cnf_handle", "null_array_calls", "collision_witnesses_checked", "moduli_factored", "zero_divisor_conjunctions_checked", "force_on_the_clause_free_formula", "witness_states", "witness_compilations", "lru_default_size_grows", "semantic_big_builders", "semantic_big_minterms_checked", "bitgrid_pairs", "exh3_blocks", "exh3_orders", "domains_exhaustive", "shapes_enumerated", "edge_cases", "default_table_growths",
            "big_rederivations", "triples", "pairs", "lattice_pairs", "field_sub_pairs"}
for _pid, _k in QUICK_SCALE.items():
    _c = PROPS[_pid]
    _c.setdefault("scale", {})["quick"] = _k
    _c["scale"]["thorough"] = THOROUGH_SCALE.get(_pid, _k * 8)
    if _k > 1:
        _f = _c.get("floors", {}).get("quick", {})
        for _name in list(_f):
            if _name not in UNSCALED:
                _f[_name] = int(_f[_name] * _k / 2)
