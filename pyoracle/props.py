"""Per-property configuration of the driver (scales, profiles, floors, evidence rule)."""

ASSUME_COMMON = [
    "the oracle (truth tables, exact arithmetic, reference models) in /verif/harness/src is itself correct; it is written independently of rsdd and is cross-checked by its own unit tests and by agreement with rsdd on millions of cases",
    "cases are a deterministic function of (VERIF_SEED, property, regime, case id); what is not generated is not covered",
    "rsdd is built from /repo's working tree with the off-by-default cargo feature `verif` (capacity overrides, growth counters, read-only accessors); the hooks only add code",
]

PROPS = {
    "C01": {
        "profiles": {"quick": ["mon"], "thorough": ["mon", "monrel"]},
        "scale": {"quick": 1, "thorough": 40},
        "floors": {
            "quick": {"ops": 100000, "std_triples": 10000, "drift_rechecks": 10000, "exh3_blocks": 96,
                      "unique_table_grows": 100, "lru_overwrites": 1000, "op_compose": 100, "op_condition_model": 100, "op_new_var": 20},
            "thorough": {"ops": 2000000, "exh3_blocks": 192},
        },
        "rule": "Every builder call is one evaluation: the returned BddPtr is walked structurally (var, low, high, complement bit) into a truth table and compared with the operation's definition applied to the oracle tables of its arguments (compose = documented exists v.(v<=>g)&f). Regimes: exh3 = all 256 functions of 3 variables x all 6 orders x both caches: all cofactors, exists, negations, all pairs for and/or/xor/iff/compose, ite over all (f,g) and every 16th h (every h in thorough); rand = short random histories (5-80 ops, <=6 vars, random order permutation, both caches, hook capacities from tiny to 1024); long = 800-2000-op histories on <=10 variables with 2..64-slot unique tables and 1..16-slot lossy caches; default (thorough) = library-default capacities. After every 16 ops all earlier results are re-walked (history independence). A case is non-trivial when the expected function is neither constant nor a literal; distinct = distinct (operation, expected function, order, cache kind) tuples (hash set), for exh3 distinct (op, argument indices, order/cache case).",
        "exhaustive_note": "regime exh3 enumerates completely: all Boolean functions of 3 variables x all 6 variable orders x {AllIteTable, LruIteTable} for condition/exists/negate (all variables and values) and and/or/xor/iff/compose over all ordered pairs; ite is exhaustive over (f,g) and samples every 16th h in quick tier, every h in thorough. Everything else is sampling.",
        "assumptions": ASSUME_COMMON,
    },
    "C02": {
        "profiles": {"quick": ["mon"], "thorough": ["mon", "monrel"]},
        "scale": {"quick": 1, "thorough": 30},
        "floors": {
            "quick": {"canon_results": 50000, "canon_repeat_functions": 10000, "nodes_shape_checked": 5000,
                      "membership_lookups": 50000, "histories_with_growth": 500, "lru_overwrites": 1000,
                      "table_ops": 50000, "table_histories_with_growth": 300},
            "thorough": {"canon_results": 1000000, "default_table_growths": 1},
        },
        "sanitizers": ["miri_table", "miri_bdd", "asan_bdd"],
        "rule": "Per result: (a) a map oracle-truth-table -> first pointer seen: a result whose function is known must be pointer-equal (== and builder.eq) to the representative, and its negation must be the representative's negation; (b) every newly reachable node: level strictly increases along both edges under builder.order(), low != high, high edge neither complemented nor constant false; (c) table membership: get_or_insert of a structural copy of every known node returns the identical address, re-checked for all known nodes every 32 ops and at the end (i.e. after growth). Regime table drives the re-exported BackedRobinhoodTable directly with adversarial hashes (equal, adjacent, wrap-around, equal low bits) from 2..16 initial slots against a HashMap model: same key => same address, no aliasing, num_nodes == |model|, iter() yields each element once, get_by_hash finds every stored hash. evaluations = distinct-function insertions + table histories; a case is non-trivial when the function is neither constant nor a literal; distinct = distinct (function, order) pairs plus distinct table histories.",
        "assumptions": ASSUME_COMMON,
    },
}
