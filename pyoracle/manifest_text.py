"""Per-property texts for MANIFEST.json."""
WIP = "monitor not built yet in this commit (work in progress; the design claims it, see DESIGN.md section 4)"
NOT_APPLICABLE = {("C%02d" % i): WIP for i in range(1, 20)}

NOTE = "Trusted base: the harness oracle (truth tables / exact arithmetic written independently of rsdd), the generators' reach, rustc. Claims are of the form 'held on K executions'; nothing is proved."

TEXT = {
    "C01": {
        "level": "Exploration by runtime monitoring: every BDD builder call in generated operation histories is observed at the API boundary and compared with an independent truth-table oracle; all 3-variable functions x all orders x both caches are enumerated completely, larger spaces (<=12 variables, histories up to 2000 ops, tiny hook capacities so growth and eviction happen constantly) are sampled. Right level because the property is a functional-correctness claim over unbounded programs: an oracle over executions decides each execution exactly, reach comes from volume and hostile configurations.",
        "design_ref": "DESIGN.md section 4, C01",
        "note": NOTE,
        "technique": "runtime monitor: truth-table reference model over generated operation histories (bounded-exhaustive + random + long hostile), history-independence re-walks, standard-triple side monitor; wide regime (history variables spread over up to 200 labels); fault injection on hash quality (verif hooks: node hashes in a few classes, lossy-cache triple hashes in 1-17 classes) with clash counters; order handle held across run-time variable creation",
    },
    "C02": {
        "level": "Exploration by runtime monitoring: canonicity is decided per execution by a map from oracle truth table to first pointer (iff over all pairs in O(1) per event), a structural invariant walker over every reachable node, a table-membership probe re-run after every growth, and a direct set-model monitor of the robin-hood table under adversarial hashes and 2..16-slot initial capacities; Miri/ASan legs cover the unsafe get_or_insert across growth.",
        "design_ref": "DESIGN.md section 4, C02",
        "note": NOTE,
        "technique": "runtime monitor: canonicity map keyed by oracle truth table + structural invariant walker + unique-table set model under adversarial hashes (feature-guarded capacity hook); Miri and AddressSanitizer legs; wide regime (history variables spread over up to 200 labels); fault injection on hash quality (verif hooks: node hashes in a few classes, lossy-cache triple hashes in 1-17 classes) with clash counters",
    },
    "C03": {
        "level": "Exploration by runtime monitoring: every SDD builder call in generated histories is compared with a truth-table oracle through an independent structural walker; all vtrees on 3 and 4 leaves are enumerated, larger vtrees of every family and both compression modes are sampled, tables start tiny so they grow constantly, and earlier results are re-evaluated periodically.",
        "design_ref": "DESIGN.md section 4, C03",
        "note": NOTE,
        "technique": "runtime monitor: truth-table reference model over generated SDD operation histories, all small vtrees enumerated, apply-case coverage recorded; wide regime (vtree variables spread over up to 200 labels); fault injection on hash quality (verif hooks: node hashes in a few classes, lossy-cache triple hashes in 1-17 classes) with clash counters",
    },
    "C04": {
        "level": "Exploration by runtime monitoring: a structural invariant walker checks every decision node reachable from every result (partition of primes, vtree scoping of primes and subs, compression, trimming) from oracle truth tables, and a canonicity map keyed by truth table covers results and all sub-nodes in both polarities; unique tables start at 2..64 slots (hook) so growth is constant; Miri leg on a small history.",
        "design_ref": "DESIGN.md section 4, C04",
        "note": NOTE,
        "technique": "runtime monitor: structural invariant walker at every quiescent point + canonicity map keyed by oracle truth table; Miri leg; wide regime (vtree variables spread over up to 200 labels); fault injection on hash quality (verif hooks: node hashes in a few classes, lossy-cache triple hashes in 1-17 classes) with clash counters",
    },
    "C05": {
        "level": "Exploration by runtime monitoring: each compilation (CNF, expression, dtree plan, compile-under-assignment) on BDD and SDD builders under random orders / vtrees is compared with the harness's own evaluation of the input on all assignments, plus pointer-equality between the alternative routes inside one builder.",
        "design_ref": "DESIGN.md section 4, C05",
        "note": NOTE,
        "technique": "runtime monitor: differential check of compiled diagrams against brute-force evaluation of the input, and pointer-equality across compilation routes; wide regime (labels spread over up to 200 indices) and several inputs per builder with drift re-walks",
    },
    "C06": {
        "level": "Exploration by runtime monitoring: each top-down compilation (both node stores) is compared with brute-force evaluation of the clause list, the false-constant/UNSAT correspondence and per-path single decision are checked structurally, and condition() on the result and on its negation is compared with the cofactor for every literal; all decision orders are enumerated for CNFs over <= 4 variables.",
        "design_ref": "DESIGN.md section 4, C06",
        "note": NOTE,
        "technique": "runtime monitor: differential check against brute-force CNF semantics + structural path invariant + conditioning oracle, workload biased to component-cache hits and late UNSAT; wide regime and several CNFs per builder with drift re-walks; Miri leg on both node stores; recorded residual-hash collision witnesses (F12, F17); fault injection on hash quality (hook H5: residual hash truncated to 0-8 bits, component-cache conflicts counted)",
    },
    "C09": {
        "level": "Exploration by runtime monitoring of decide/pop histories: an online checker compares every observable solver state with brute-force entailment over all models, an independent naive propagator, a recorded-state stack (pop restore), a per-solver hash->residual map and a two-way map between cur_residual() and the residual formula. Right level because watched-literal bugs depend on the history of falsifications across backtracking, which only long random walks reach.",
        "design_ref": "DESIGN.md section 4, C09",
        "note": NOTE,
        "technique": "runtime monitor: online trace checker over decide/pop histories against brute-force entailment, reference propagator and recorded pre-decision states (read-only model hook); wide regime (CNF variables spread over up to 200 labels); recorded residual-hash collision witnesses (F12, F17); bijection monitor between cur_residual() and the position-indexed residual formula",
    },
    "C07": {
        "level": "Exploration by runtime monitoring: every count returned by the library on generated BDDs / SDDs / decision-DNNFs in all nine shipped semiring instances is compared for exact equality with the defining sum over models computed from the truth table in exact arithmetic; BDDs also under arbitrary weights against the unsmoothed count; evaluate() against the truth table on every assignment.",
        "design_ref": "DESIGN.md section 4, C07",
        "note": NOTE + " Float-backed weights are restricted to dyadic values for which every intermediate result is exactly representable, so equality is exact and order-independent.",
        "technique": "runtime monitor: exact-arithmetic reference model (brute-force semiring sum over models) over generated diagrams x 9 semirings x weight assignments",
    },
    "C08": {
        "level": "Exploration by runtime monitoring: each smooth() result is checked for function preservation, for the per-path 'each level exactly once, in order' invariant by a structural path walker, and for exact agreement of weighted and unweighted counts with brute force under non-normalised weights; all 3-variable functions x orders enumerated.",
        "design_ref": "DESIGN.md section 4, C08",
        "note": NOTE,
        "technique": "runtime monitor: structural path-invariant walker + exact brute-force counting oracle on smoothed diagrams (bounded-exhaustive + random level-skipping inputs); several smooth calls per builder over different numbers of levels",
    },
    "C13": {
        "level": "Exploration by runtime monitoring with large exhaustive parts: the algebraic laws are asserted on every triple of finite grids / boundary sets per type and per exported prime, results are compared with independent reference arithmetic, in both build profiles.",
        "design_ref": "DESIGN.md section 4, C13",
        "note": NOTE,
        "technique": "runtime monitor: algebraic-law assertions and reference-arithmetic comparison over exhaustive grids and boundary residues, in overflow-checked and unchecked builds; bit-length grid over all operand bit lengths for the seven exported primes; complex subtraction",
    },
    "C14": {
        "level": "Exploration by runtime monitoring: every order, dtree, dtree-derived vtree and vtree-manager table the library produces for generated CNFs / trees is inspected structurally and compared with the definition recomputed by the harness; all vtree shapes on <= 6 leaves, all node pairs for lca, and all elimination orders for small CNFs are enumerated.",
        "design_ref": "DESIGN.md section 4, C14",
        "note": NOTE,
        "technique": "runtime monitor: structural invariant checkers against definitions recomputed from the input (orders, dtree var sets and cutsets, vtree index/lca/prime tables); library vtree constructors, label sets with gaps, vtrees up to 179 nodes, CNFs over up to 200 labels",
    },
    "C15": {
        "level": "Exploration by runtime monitoring: CNF utilities, partial-model / variable-set bookkeeping and the residual hasher are driven with generated inputs and operation histories and compared with set-theoretic reference models (truth tables, HashMap/HashSet, exact sums, residual families).",
        "design_ref": "DESIGN.md section 4, C15",
        "note": NOTE,
        "technique": "runtime monitor: reference-model comparison (truth table, map/set models, exact brute-force sum) and a functional-dependency checker hash<->residual over push/decide/pop histories; partial models / variable sets over up to 300 variables; Cnf::from_string",
    },
    "C10": {
        "level": "Exploration by runtime monitoring of query histories: interleaved queries of different memo types on pools of diagrams sharing nodes are checked for repeatability, for agreement with the same query on a freshly rebuilt copy, and a full scratch scan of every reachable node runs after every public call; rsdd's own debug assertions are compiled in; Miri leg for the boxed-Any scratch traffic.",
        "design_ref": "DESIGN.md section 4, C10",
        "note": NOTE,
        "technique": "runtime monitor: query-history checker (first-answer map + fresh-copy differential) and a scratch-slot invariant scan at every quiescent point; Miri leg",
    },
    "C11": {
        "level": "Exploration by runtime monitoring: hashes returned by the library for many representations of one function are compared with the defining sum computed independently from the truth table (which also makes them equal to each other), negation and cached-vs-recomputed are checked, and the hash-identified builders are driven through operation histories with an eq()-on-equal-functions monitor (all primes) and a truth-table oracle (64-bit prime).",
        "design_ref": "DESIGN.md section 4, C11",
        "note": NOTE,
        "technique": "runtime monitor: defining-sum reference model for hashes across representations + operation-history monitor of the semantic builders (equality on equal functions; truth-table oracle over the 64-bit field); builder hash accessors; semantic SDD builders over spread labels; Miri leg on the hash-identified builders, AddressSanitizer leg on the whole workload incl. 524 286-node by-hash tables; zero-divisor construction against the exported 64-bit modulus; recorded collision witnesses of the 64-bit semantic hash (F18)",
    },
    "C12": {
        "level": "Exploration by runtime monitoring: every optimisation query (marginal MAP, MEU, generic branch and bound in both semirings) on generated BDDs is compared for exact equality with exhaustive maximisation computed by the oracle from the truth table, and the returned model is re-evaluated by the oracle; near-ties and tiny magnitudes are generated deliberately because pruning errors depend on the relation between sibling bounds.",
        "design_ref": "DESIGN.md section 4, C12",
        "note": NOTE,
        "technique": "runtime monitor: exhaustive-maximisation reference model with exact dyadic arithmetic over generated BDDs, query sets, orders and weights (near-tie and tiny-magnitude workloads); exactly tied optima (coarse weights), prelude queries in the same builder, wide regime",
    },
    "C16": {
        "level": "Exploration by runtime monitoring: the lossy cache is checked against a map model with permitted forgetting under adversarial hashes and tiny capacities; BDD builders with both cache kinds replay identical histories and must return identical canonical diagrams; warm SDD caches are compared with cold ones. Floors make sure overwrites, growth and hits were actually observed (feature-guarded capacity hook).",
        "design_ref": "DESIGN.md section 4, C16",
        "note": NOTE,
        "technique": "runtime monitor: map model with permitted forgetting over insert/get histories + paired-builder differential (all-cache vs tiny lossy cache) + warm-vs-cold SDD replay; ITE-cache adapters driven directly through the IteTable trait with colliding hashes; paired histories under degraded triple hashes (hook H7)",
    },
    "C17": {
        "level": "Exploration by runtime monitoring: generated DIMACS texts and s-expressions are parsed by rsdd and compared with the harness's own evaluation under the documented numbering; print/re-parse round trips are compared as clause sets; JSON serialisations of BDDs, SDDs and vtrees are read by an independent Python reader and compared with oracle truth tables / trees.",
        "design_ref": "DESIGN.md section 4, C17",
        "note": NOTE + " The Python reader (pyoracle/ddjson.py) is part of the trusted base.",
        "technique": "runtime monitor: generated-text round trips against an independent evaluator + independent (Python) reader of the JSON node tables compared with oracle truth tables; large DIMACS variable numbers, diagrams over spread labels, LogicalExpr::eval; DIMACS problem lines with zero counts, empty clauses",
    },
    "C19": {
        "level": "Exploration by runtime monitoring at the process boundary: the real binaries built from /repo are run on generated formula / weights / config / DIMACS files and their stdout is compared with exact brute-force counts (fractions) and, for the converters, with the input's truth table through the independent JSON reader.",
        "design_ref": "DESIGN.md section 4, C19",
        "note": NOTE + " Python's fractions and the JSON reader are part of the trusted base.",
        "technique": "runtime monitor: black-box differential testing of the built binaries against exact brute-force counting and an independent JSON reader; clause-free DIMACS inputs",
    },
    "C18": {
        "level": "Exploration by runtime monitoring at the ABI boundary: the exported extern \"C\" symbols are called like a C client would, every call is mirrored natively and checked against the truth-table oracle, diagrams are observed only through the C accessors, counts are compared bit-for-bit; the same workload runs under Miri, AddressSanitizer and valgrind memcheck in the thorough tier.",
        "design_ref": "DESIGN.md section 4, C18",
        "note": NOTE + " The extern declarations in the harness are the stand-in for the C header.",
        "technique": "runtime monitor: differential call-sequence checking (C ABI vs native vs truth-table oracle) + Miri / AddressSanitizer / valgrind memcheck legs; weights overwritten between counts on the same C tables; isolated one-process cases for handle reuse and (NULL, 0) arrays, where death by a signal is the violation",
    },
}
