"""Per-property texts for MANIFEST.json."""
WIP = "monitor not built yet in this commit (work in progress; the design claims it, see DESIGN.md section 4)"
NOT_APPLICABLE = {("C%02d" % i): WIP for i in range(1, 20)}

NOTE = "Trusted base: the harness oracle (truth tables / exact arithmetic written independently of rsdd), the generators' reach, rustc. Claims are of the form 'held on K executions'; nothing is proved."

TEXT = {
    "C01": {
        "level": "Exploration by runtime monitoring: every BDD builder call in generated operation histories is observed at the API boundary and compared with an independent truth-table oracle; all 3-variable functions x all orders x both caches are enumerated completely, larger spaces (<=12 variables, histories up to 2000 ops, tiny hook capacities so growth and eviction happen constantly) are sampled. Right level because the property is a functional-correctness claim over unbounded programs: an oracle over executions decides each execution exactly, reach comes from volume and hostile configurations.",
        "design_ref": "DESIGN.md section 4, C01",
        "note": NOTE,
        "technique": "runtime monitor: truth-table reference model over generated operation histories (bounded-exhaustive + random + long hostile), history-independence re-walks, standard-triple side monitor",
    },
    "C02": {
        "level": "Exploration by runtime monitoring: canonicity is decided per execution by a map from oracle truth table to first pointer (iff over all pairs in O(1) per event), a structural invariant walker over every reachable node, a table-membership probe re-run after every growth, and a direct set-model monitor of the robin-hood table under adversarial hashes and 2..16-slot initial capacities; Miri/ASan legs cover the unsafe get_or_insert across growth.",
        "design_ref": "DESIGN.md section 4, C02",
        "note": NOTE,
        "technique": "runtime monitor: canonicity map keyed by oracle truth table + structural invariant walker + unique-table set model under adversarial hashes (feature-guarded capacity hook); Miri and AddressSanitizer legs",
    },
}
