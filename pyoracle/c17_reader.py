"""Python leg of C17: reads the JSON serialisations written by the Rust worker leg
(target/out/C17.*.ser.jsonl) with the independent readers in ddjson.py and compares
them with the oracle truth tables / trees recorded next to them."""
import glob, json, os
import ddjson


def check_record(rec):
    """returns None if fine, else (sub, sig, detail)"""
    kind = rec["kind"]
    try:
        doc = json.loads(rec["json"])
    except Exception as e:
        return ("ser.%s.json" % kind, "serialisation is not valid JSON", {"error": str(e)})
    try:
        if kind == "bdd":
            got = ddjson.bdd_truth_table(doc, rec["n"], rec.get("label_of_variable"))
            if len(got) != 1:
                return ("ser.bdd.roots", "expected exactly one root", {"roots": len(got)})
            if not ddjson.bdd_check_postorder(doc):
                return ("ser.bdd.order", "a node refers to a later table entry", {})
            if got[0] != ddjson.bits_to_int(rec["expected"]):
                return ("ser.bdd.function", "BDD JSON read as a node table with complement flags denotes a different function",
                        {"json": rec["json"], "expected_bits": rec["expected"]})
        elif kind == "sdd":
            got = ddjson.sdd_truth_table(doc, rec["n"], rec.get("label_of_variable"))
            if len(got) != 1:
                return ("ser.sdd.roots", "expected exactly one root", {"roots": len(got)})
            if got[0] != ddjson.bits_to_int(rec["expected"]):
                return ("ser.sdd.function", "SDD JSON read as a node table with complement flags denotes a different function",
                        {"json": rec["json"], "expected_bits": rec["expected"], "vtree": rec.get("vtree")})
        elif kind == "vtree":
            if ddjson.vtree_shape(doc) != rec["expected"]:
                return ("ser.vtree.shape", "vtree JSON is not the in-memory tree", {"json": rec["json"], "expected": rec["expected"]})
    except Exception as e:
        return ("ser.%s.reader" % kind, "JSON does not follow the documented node-table format", {"error": repr(e), "json": rec["json"][:2000]})
    return None


def run(here, tier, seed, only=None):
    viols, counters, samples = [], {}, []
    files = sorted(glob.glob(os.path.join(here, "target", "out", "C17.*.ser.jsonl")))
    distinct = set()
    for f in files:
        with open(f) as fh:
            for line in fh:
                line = line.strip()
                if not line:
                    continue
                rec = json.loads(line)
                k = "py_read_" + rec["kind"]
                counters[k] = counters.get(k, 0) + 1
                if rec.get("complemented_root"):
                    counters["py_complemented_roots"] = counters.get("py_complemented_roots", 0) + 1
                distinct.add(hash(rec["json"]))
                bad = check_record(rec)
                if bad:
                    sub, sig, detail = bad
                    viols.append({"sub": sub, "sig": sig, "regime": rec["regime"], "case": rec["case"],
                                  "profile": os.path.basename(f).split(".")[1], "detail": detail})
                elif len(samples) < 2 and rec["kind"] != "vtree" and len(rec["json"]) > 200:
                    samples.append({"regime": rec["regime"], "json": rec["json"][:600], "expected_bits": rec["expected"][:64]})
    inconclusive = []
    if not files:
        inconclusive.append("no serialisation side files found (worker leg did not run?)")
    return viols, {"counters": counters, "samples": samples, "inconclusive": inconclusive}
