#!/usr/bin/env python3
"""Reach measurement for the monitors (not a check, decides nothing).

  ./coverage.py [--props C01,C02,...] [--shards N] [--scale K] [--out FILE]

Builds the harness with `-Cinstrument-coverage` (nightly, own target dir), runs each
property's worker workload (quick tier), merges the profiles and reports, for every
source file of /repo/src, the lines and functions of rsdd the monitors' workloads reach.
"A monitor says nothing about paths the workload never drives": this is how the
unreached parts are found.  Output: coverage/SUMMARY.json (+ uncovered line ranges of
the files the properties are anchored in) and a text table on stdout.
"""
import json, os, subprocess, sys, glob, shutil, re

HERE = os.path.dirname(os.path.abspath(__file__))
sys.path.insert(0, os.path.join(HERE, "pyoracle"))
from props import PROPS
HARNESS = os.path.join(HERE, "harness")
TDIR = os.path.join(HERE, "target", "cov")
SYSROOT = subprocess.run(["rustc", "+nightly", "--print", "sysroot"], stdout=subprocess.PIPE, text=True).stdout.strip()
BIN = os.path.join(SYSROOT, "lib/rustlib/x86_64-unknown-linux-gnu/bin")


def main():
    args = sys.argv[1:]
    props = sorted(p for p in PROPS if PROPS[p].get("profiles") != {})
    shards, scale, out = 4, None, os.path.join(HERE, "coverage", "SUMMARY.json")
    i = 0
    while i < len(args):
        if args[i] == "--props": props = args[i + 1].split(","); i += 2
        elif args[i] == "--shards": shards = int(args[i + 1]); i += 2
        elif args[i] == "--scale": scale = int(args[i + 1]); i += 2
        elif args[i] == "--out": out = args[i + 1]; i += 2
        else: print("unknown arg", args[i]); sys.exit(64)
    env = dict(os.environ)
    env["CARGO_NET_OFFLINE"] = "true"
    env["RUSTFLAGS"] = "-Cinstrument-coverage"
    env["CARGO_TARGET_DIR"] = TDIR
    env["LLVM_PROFILE_FILE"] = os.path.join(TDIR, "build-%p.profraw")  # build scripts are instrumented too
    r = subprocess.run(["cargo", "+nightly", "build", "--offline", "--profile", "mon"], cwd=HARNESS, env=env)
    if r.returncode != 0:
        print("coverage build failed"); sys.exit(3)
    binary = os.path.join(TDIR, "mon", "rsdd-mon")
    praw = os.path.join(TDIR, "profraw")
    shutil.rmtree(praw, ignore_errors=True)
    os.makedirs(praw)
    outdir = os.path.join(TDIR, "out"); os.makedirs(outdir, exist_ok=True)
    per_prop = {}
    for pid in props:
        cfg = PROPS[pid]
        if not cfg.get("profiles", {}).get("quick", ["mon"]):
            continue
        sc = scale or cfg.get("scale", {}).get("quick", 1)
        procs = []
        for s in range(shards):
            e = dict(os.environ)
            e["LLVM_PROFILE_FILE"] = os.path.join(praw, "%s-%d-%%p.profraw" % (pid, s))
            cmd = [binary, pid, "--seed", "1", "--shard", str(s), "--nshards", str(shards), "--scale", str(sc),
                   "--tier", "quick", "--profile", "mon", "--out", outdir]
            procs.append(subprocess.Popen(cmd, stdout=subprocess.DEVNULL, stderr=subprocess.DEVNULL, env=e, cwd=HERE))
        for p in procs:
            p.wait()
        print("ran", pid, flush=True)
        pd = os.path.join(TDIR, pid + ".profdata")
        subprocess.run([os.path.join(BIN, "llvm-profdata"), "merge", "-sparse", "-o", pd] + glob.glob(os.path.join(praw, pid + "-*.profraw")), check=True)
        per_prop[pid] = pd
    allpd = os.path.join(TDIR, "all.profdata")
    subprocess.run([os.path.join(BIN, "llvm-profdata"), "merge", "-sparse", "-o", allpd] + list(per_prop.values()), check=True)

    def export(pd):
        r = subprocess.run([os.path.join(BIN, "llvm-cov"), "export", "-format=text", "-instr-profile", pd, binary,
                            "--ignore-filename-regex", r"(/\.cargo/|/rustc/|/verif/harness/)"],
                           stdout=subprocess.PIPE, text=True, check=True)
        return json.loads(r.stdout)["data"][0]
    data = export(allpd)
    files = {}
    for f in data["files"]:
        name = f["filename"]
        if not name.startswith("/repo/"):
            continue
        # segments: [line, col, count, hasCount, isRegionEntry, isGap]
        uncovered = set(); covered = set()
        segs = f["segments"]
        for a, b in zip(segs, segs[1:] + [None]):
            if not a[3]:
                continue
            end = b[0] if b else a[0]
            rng = range(a[0], end + (0 if (b and b[1] == 1) else 1)) if b else [a[0]]
            for ln in rng:
                (covered if a[2] > 0 else uncovered).add(ln)
        unc = sorted(uncovered - covered)
        ranges = []
        for ln in unc:
            if ranges and ranges[-1][1] == ln - 1: ranges[-1][1] = ln
            else: ranges.append([ln, ln])
        s = f["summary"]
        files[name[len("/repo/"):]] = {"lines": s["lines"]["count"], "lines_covered": s["lines"]["covered"],
                                       "functions": s["functions"]["count"], "functions_covered": s["functions"]["covered"],
                                       "regions": s["regions"]["count"], "regions_covered": s["regions"]["covered"],
                                       "uncovered_line_ranges": ranges}
    # functions never executed
    dem = {}
    unexec = []
    for fn in data.get("functions", []):
        if fn["count"] == 0 and fn["filenames"] and fn["filenames"][0].startswith("/repo/src"):
            unexec.append((fn["filenames"][0][len("/repo/"):], fn["name"], fn["regions"][0][0] if fn["regions"] else 0))
    names = "\n".join(n for _, n, _ in unexec)
    try:
        d = subprocess.run(["rustfilt"], input=names, stdout=subprocess.PIPE, text=True).stdout.split("\n")
    except Exception:
        d = names.split("\n")
    un = sorted(set((f, ln, re.sub(r"::h[0-9a-f]{16}$", "", n)) for (f, _, ln), n in zip(unexec, d)))
    # a generic fn is "unexecuted" only if no instantiation ran
    ran = set()
    for fn in data.get("functions", []):
        if fn["count"] > 0 and fn["filenames"] and fn["regions"]:
            ran.add((fn["filenames"][0][len("/repo/"):] if fn["filenames"][0].startswith("/repo/") else "", fn["regions"][0][0]))
    un = [u for u in un if (u[0], u[1]) not in ran]
    tot = data["totals"]
    os.makedirs(os.path.dirname(out), exist_ok=True)
    doc = {"note": "rsdd source reached by the quick-tier worker workloads of the listed monitors (mon profile, %d shards); python legs (C17 reader, C19 CLI) and sanitizer legs not included" % shards,
           "props": props, "files": files,
           "never_executed_functions": [{"file": f, "line": ln, "name": n} for f, ln, n in un]}
    json.dump(doc, open(out, "w"), indent=1, sort_keys=True)
    print("%-52s %8s %8s %6s   %s" % ("file", "lines", "covered", "%", "functions"))
    tl = tc = 0
    for k in sorted(files):
        v = files[k]
        if not k.startswith("src/"): continue
        tl += v["lines"]; tc += v["lines_covered"]
        print("%-52s %8d %8d %5.1f%%   %d/%d" % (k, v["lines"], v["lines_covered"], 100.0 * v["lines_covered"] / max(1, v["lines"]), v["functions_covered"], v["functions"]))
    print("%-52s %8d %8d %5.1f%%" % ("TOTAL src/", tl, tc, 100.0 * tc / max(1, tl)))
    print("functions never executed: %d (see %s)" % (len(un), out))


if __name__ == "__main__":
    main()
