#!/usr/bin/env python3
"""Regenerates MANIFEST.json from pyoracle/props.py (single source of truth)."""
import json, os, sys, subprocess
HERE = os.path.dirname(os.path.abspath(__file__))
sys.path.insert(0, os.path.join(HERE, "pyoracle"))
from props import PROPS
from manifest_text import TEXT, NOT_APPLICABLE

hooks_commits = subprocess.run(["git", "-C", "/repo", "log", "--format=%H %s"], capture_output=True, text=True).stdout.splitlines()
hook_shas = [l.split()[0] for l in hooks_commits if " verif hooks" in l or l.split(" ", 1)[1].startswith("verif hook")]

checks = []
for pid in sorted(PROPS):
    t = TEXT[pid]
    checks.append({
        "property_id": pid,
        "quick_cmd": "./check %s --tier quick" % pid,
        "thorough_cmd": "./check %s --tier thorough" % pid,
        "evidence_file": "/verif/evidence/%s.json" % pid,
        "replay_cmd_template": "./check %s --replay {path}" % pid,
        "engine": "rsdd-mon",
        "level_claimed": {"category": "exploration", "text": t["level"], "design_ref": t["design_ref"]},
        "level_note": t["note"],
        "technique": t["technique"],
    })
m = {
    "version": 1,
    "setup_cmd": "cd /verif/harness && CARGO_NET_OFFLINE=true cargo build --offline --profile mon && CARGO_NET_OFFLINE=true cargo build --offline --profile monrel && cd /repo && CARGO_NET_OFFLINE=true cargo build --offline --features cli --bins --target-dir /verif/target/repo",
    "hooks": {
        "guard": "cargo feature `verif` of the rsdd crate (off by default)",
        "enable": "the harness crate depends on rsdd = { path = \"/repo\", features = [\"verif\", \"ffi\"] }; every check runs `cargo build` of /verif/harness, which rebuilds rsdd from /repo's working tree with the feature on",
        "baseline_off_cmd": "cd /repo && cargo test --workspace --no-fail-fast --offline",
        "source_commits": hook_shas,
        "add_only": True,
    },
    "engines": [{
        "name": "rsdd-mon", "path": "/verif/harness",
        "serves_properties": sorted(PROPS),
        "kind_free_text": "Rust worker binary (one monitor per property: generated workloads + independent oracles + invariant walkers) driven by /verif/check (Python: sharding, watchdog, known-findings matching, evidence); Miri / ASan / valgrind legs in the thorough tier",
    }],
    "checks": checks,
    "not_applicable": [{"property_id": k, "reason": v} for k, v in sorted(NOT_APPLICABLE.items()) if k not in PROPS],
    "notes": "Technique family: runtime monitoring and sanitizers. Verdicts are three-valued: exit 0 = held on what was observed (observation floors met), exit 1 + VIOLATION line = violation not listed in known_findings.json, exit 3 = inconclusive (never reported as a violation). VERIF_SEED seeds every random choice.",
}
json.dump(m, open(os.path.join(HERE, "MANIFEST.json"), "w"), indent=1)
print("MANIFEST.json: %d checks, %d not_applicable" % (len(checks), len(m["not_applicable"])))
