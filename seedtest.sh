#!/bin/bash
# usage: seedtest.sh <patch> <PROP> [tier]   -- apply a seeded change to /repo, run the check, undo it
set -u
patch="$1"; prop="$2"; tier="${3:-quick}"
cd /repo
if ! git diff --quiet; then echo "/repo has uncommitted changes; refusing"; exit 9; fi
git apply "$patch" || { echo "patch does not apply"; exit 8; }
cd /verif
./check "$prop" --tier "$tier" > /tmp/seedtest.$$.log 2>&1; rc=$?
git -C /repo checkout -- . 
grep -E "VIOLATION|INCONCLUSIVE|^  " /tmp/seedtest.$$.log | head -8
echo "rc=$rc  ($(basename $(dirname $patch))/$(basename $patch) vs $prop)"
rm -f /tmp/seedtest.$$.log
# restore the evidence of the unchanged tree
exit $rc
